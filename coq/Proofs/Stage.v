(** * C06: the launch stage never moves backwards; timeline and step flags stay ordered. *)
From LP Require Import Proofs.Tactics Proofs.Gates Proofs.Frames Proofs.Permissions.
Open Scope N_scope.

(** what the stage depends on *)
Definition tl_of (s : state) := (conf_start s, ws_start s, claim_start s, fl_filtered s, fl_selected s, fl_additional s).

Lemma tf_tl s s' : tf s' = tf s -> tl_of s' = tl_of s.
Proof. unfold tf, terms_of, flags_of, tl_of. intros E. inversion E. congruence. Qed.
Lemma terms_tl s s' : terms_of s' = terms_of s -> (conf_start s', ws_start s', claim_start s') = (conf_start s, ws_start s, claim_start s).
Proof. unfold terms_of. intros E. inversion E. congruence. Qed.

Lemma stage_tl e s s' : tl_of s' = tl_of s -> get_launch_stage e s' = get_launch_stage e s.
Proof. unfold tl_of, get_launch_stage. intros E. inversion E. congruence. Qed.

Definition stage_le (a b : stage) : Prop := stage_idx a <= stage_idx b.

Definition ble (a b : bool) : Prop := a = true -> b = true.

(** the step flags are taken in order *)
Definition flags_ord (s : state) : Prop :=
  (fl_selected s = true -> fl_filtered s = true).

(** one accepted call, seen from the stage function *)
Inductive tl_step (e : env) (s s' : state) : Prop :=
| tls_same : tl_of s' = tl_of s -> tl_step e s s'
| tls_conf : round e < conf_start s -> round e < conf_start s' ->
    (ws_start s', claim_start s', fl_filtered s', fl_selected s', fl_additional s') =
    (ws_start s, claim_start s, fl_filtered s, fl_selected s, fl_additional s) -> timeline_ok s' -> tl_step e s s'
| tls_ws : round e < ws_start s -> round e < ws_start s' ->
    (conf_start s', claim_start s', fl_filtered s', fl_selected s', fl_additional s') =
    (conf_start s, claim_start s, fl_filtered s, fl_selected s, fl_additional s) -> timeline_ok s' -> tl_step e s s'
| tls_claim : round e < claim_start s -> round e < claim_start s' ->
    (conf_start s', ws_start s', fl_filtered s', fl_selected s', fl_additional s') =
    (conf_start s, ws_start s, fl_filtered s, fl_selected s, fl_additional s) -> timeline_ok s' -> tl_step e s s'
| tls_flags :
    (conf_start s', ws_start s', claim_start s') = (conf_start s, ws_start s, claim_start s) ->
    ble (fl_filtered s) (fl_filtered s') -> ble (fl_selected s) (fl_selected s') ->
    ble (fl_additional s) (fl_additional s') ->
    (flags_ord s -> flags_ord s') -> tl_step e s s'.

Lemma tl_step_stage e s s' :
  tl_step e s s' -> timeline_ok s ->
  stage_le (get_launch_stage e s) (get_launch_stage e s') /\ timeline_ok s' /\ (flags_ord s -> flags_ord s').
Proof.
  unfold stage_le, timeline_ok, flags_ord, get_launch_stage, ble.
  intros [E | H1 H2 E Ht | H1 H2 E Ht | H1 H2 E Ht | E Hf Hs Ha Ho] [T1 T2]; unfold timeline_ok in *.
  - unfold tl_of in E. inversion E as [[E1 E2 E3 E4 E5 E6]]. rewrite E1, E2, E3, E4, E5, E6. repeat split; auto; lia.
  - inversion E as [[E2 E3 E4 E5 E6]]. rewrite E2, E3, E4, E5, E6 in *.
    destruct (N.ltb_spec (round e) (conf_start s)); [|lia].
    destruct (N.ltb_spec (round e) (conf_start s')); [|lia]. repeat split; auto; try lia.
  - inversion E as [[E1 E3 E4 E5 E6]]. rewrite E1, E3, E4, E5, E6 in *.
    destruct (N.ltb_spec (round e) (conf_start s)); [repeat split; auto; try lia|].
    destruct (N.ltb_spec (round e) (ws_start s)); [|lia].
    destruct (N.ltb_spec (round e) (ws_start s')); [|lia]. repeat split; auto; try lia.
  - inversion E as [[E1 E2 E4 E5 E6]]. rewrite E1, E2, E4, E5, E6 in *.
    destruct (N.ltb_spec (round e) (conf_start s)); [repeat split; auto; try lia|].
    destruct (N.ltb_spec (round e) (ws_start s)); [repeat split; auto; try lia|].
    destruct (negb (fl_selected s && fl_additional s)); [repeat split; auto; try lia|].
    destruct (N.ltb_spec (round e) (claim_start s)); [|lia].
    destruct (N.ltb_spec (round e) (claim_start s')); [|lia]. repeat split; auto; try lia.
  - inversion E as [[E1 E2 E3]]. rewrite E1, E2, E3.
    split; [|split; [lia|auto]].
    destruct (round e <? conf_start s); [cbn; lia|]. destruct (round e <? ws_start s); [cbn; lia|].
    destruct (fl_selected s) eqn:Fs, (fl_additional s) eqn:Fa; cbn [andb negb];
      try rewrite (Hs eq_refl); try rewrite (Ha eq_refl); cbn [andb negb];
      try (destruct (round e <? claim_start s); cbn; lia);
      destruct (fl_selected s'), (fl_additional s'); cbn [andb negb];
      destruct (round e <? claim_start s); cbn; lia.
Qed.

(** later rounds never give an earlier stage *)
Lemma stage_mono_round e e' s :
  timeline_ok s -> round e <= round e' -> stage_le (get_launch_stage e s) (get_launch_stage e' s).
Proof.
  unfold stage_le, timeline_ok, get_launch_stage. intros [T1 T2] Hr.
  destruct (N.ltb_spec (round e) (conf_start s)); [cbn; lia|].
  destruct (N.ltb_spec (round e') (conf_start s)); [lia|].
  destruct (N.ltb_spec (round e) (ws_start s)); [cbn; destruct (round e' <? ws_start s); cbn; try lia;
    destruct (negb _); cbn; try lia; destruct (round e' <? claim_start s); cbn; lia|].
  destruct (N.ltb_spec (round e') (ws_start s)); [lia|].
  destruct (negb (fl_selected s && fl_additional s)); [cbn; lia|].
  destruct (N.ltb_spec (round e) (claim_start s)); [destruct (round e' <? claim_start s); cbn; lia|].
  destruct (N.ltb_spec (round e') (claim_start s)); [lia|]. cbn; lia.
Qed.

Section H.
Variable H : list N -> list N.

Ltac use_tf := match goal with Hx : tf _ = tf _ |- _ => apply tls_same; apply tf_tl; exact Hx end.

Theorem dispatch_tl_step v e b w c w' r :
  dispatch H v e b w c = Ok (w', r) -> tl_step e (st w) (st w').
Proof.
  intros E.
  destruct c; destruct v;
    cbn [dispatch ret0 ret1 blacklist_endpoint unblacklist_endpoint has_nft is_v1 has_unblacklist send_fn_of has_lock] in E;
    try discriminate E; unfold ret0, ret1 in E; mon_inv;
    repeat match goal with
    | Hx : blacklist_endpoint _ _ _ _ _ = Ok _ |- _ => unfold blacklist_endpoint in Hx; cbn [has_nft] in Hx; mon_inv
    | Hx : unblacklist_endpoint _ _ _ _ = Ok _ |- _ => unfold unblacklist_endpoint in Hx; mon_inv
    end;
    repeat match goal with a : (world * N)%type |- _ => destruct a end; cbn [fst snd];
    repeat match goal with
    | Hx : add_tickets _ _ _ = Ok _ |- _ => apply add_tickets_tf in Hx
    | Hx : add_tickets_v1 _ _ _ = Ok _ |- _ => apply add_tickets_v1_tf in Hx
    | Hx : add_tickets_v2 _ _ _ = Ok _ |- _ => apply add_tickets_v2_tf in Hx
    | Hx : confirm_tickets _ _ _ = Ok _ |- _ => apply confirm_tf in Hx
    | Hx : add_users_to_blacklist _ _ _ = Ok _ |- _ => apply add_users_to_blacklist_tf in Hx
    | Hx : remove_users_from_blacklist _ _ _ = Ok _ |- _ => apply remove_users_from_blacklist_tf in Hx
    | Hx : clear_gt_after_blacklist_v1 _ _ = Ok _ |- _ => apply clear_gt_after_blacklist_v1_tf in Hx
    | Hx : clear_gt_after_blacklist_v2 _ _ = Ok _ |- _ => apply clear_gt_after_blacklist_v2_tf in Hx
    | Hx : unblacklist_gt_v1 _ _ = Ok _ |- _ => apply unblacklist_gt_v1_tf in Hx
    | Hx : unblacklist_gt_v2 _ _ = Ok _ |- _ => apply unblacklist_gt_v2_tf in Hx
    | Hx : refund_nft_loop _ _ = Ok _ |- _ => apply refund_nft_loop_tf in Hx
    | Hx : claim_vested _ _ _ = Ok _ |- _ => apply claim_vested_tf in Hx
    | Hx : claim_launchpad_tokens default_send _ _ = Ok _ |- _ => apply (claim_launchpad_tokens_tf _ _ _ _ default_send_tf) in Hx
    | Hx : claim_launchpad_tokens send_locked_launchpad_tokens _ _ = Ok _ |- _ => apply (claim_launchpad_tokens_tf _ _ _ _ send_locked_tf) in Hx
    | Hx : claim_nft _ _ = Ok _ |- _ => apply claim_nft_tf in Hx
    | Hx : claim_ticket_payment _ _ = Ok _ |- _ => apply claim_ticket_payment_tf in Hx
    | Hx : claim_ticket_payment_gt _ _ = Ok _ |- _ => apply claim_ticket_payment_gt_tf in Hx
    | Hx : claim_nft_payment _ _ = Ok _ |- _ => apply claim_nft_payment_tf in Hx
    | Hx : confirm_nft _ _ = Ok _ |- _ => apply confirm_nft_tf in Hx
    end;
    rewrite ?st_emit;
    try (apply tls_same; apply tf_tl; congruence).
  all: try (match goal with Hx : deposit_launchpad_tokens _ _ _ = Ok _ |- _ => apply deposit_tf in Hx; destruct Hx as [Hx _]; rewrite Hx; apply tls_same; reflexivity end).
  all: try (match goal with Hx : set_ticket_price _ _ _ _ = Ok _ |- _ =>
              unfold set_ticket_price, try_set_ticket_price in Hx; mon_inv; rewrite st_emit, st_set_st; apply tls_same; reflexivity end).
  all: try (match goal with Hx : set_launchpad_tokens_per_winning_ticket _ _ _ = Ok _ |- _ =>
              unfold set_launchpad_tokens_per_winning_ticket, try_set_tpt in Hx; mon_inv; rewrite st_set_st; apply tls_same; reflexivity end).
  all: try (match goal with Hx : set_confirmation_period_start_round _ _ _ = Ok _ |- _ =>
              apply gate_set_conf in Hx; destruct Hx as (_ & H1 & H2 & Hs & Ht & _); rewrite Hs in *;
              apply tls_conf; cbn; auto end).
  all: try (match goal with Hx : set_winner_selection_start_round _ _ _ = Ok _ |- _ =>
              apply gate_set_ws in Hx; destruct Hx as (_ & H1 & H2 & Hs & Ht & _); rewrite Hs in *;
              apply tls_ws; cbn; auto end).
  all: try (match goal with Hx : set_claim_start_round _ _ _ = Ok _ |- _ =>
              apply gate_set_claim in Hx; destruct Hx as (_ & H1 & H2 & Hs & Ht & _); rewrite Hs in *;
              apply tls_claim; cbn; auto end).
  all: try (match goal with Hx : set_support_address _ _ _ = Ok _ |- _ =>
              unfold set_support_address in Hx; mon_inv; rewrite st_set_st; apply tls_same; reflexivity end).
  all: try (match goal with Hx : pause_endpoint _ _ = Ok _ |- _ => apply gate_pause in Hx; destruct Hx as (_ & Hs & _); rewrite Hs; apply tls_same; reflexivity end).
  all: try (match goal with Hx : unpause_endpoint _ _ = Ok _ |- _ => apply gate_unpause in Hx; destruct Hx as (_ & Hs & _); rewrite Hs; apply tls_same; reflexivity end).
  all: try (match goal with Hx : set_nft_cost _ _ _ _ _ = Ok _ |- _ =>
              unfold set_nft_cost, try_set_nft_cost in Hx; mon_inv; rewrite st_set_st; apply tls_same; reflexivity end).
  all: try (match goal with Hx : set_unlock_schedule_v1 _ _ _ _ _ _ _ = Ok _ |- _ =>
              unfold set_unlock_schedule_v1 in Hx; mon_inv; rewrite st_set_st; apply tls_same; reflexivity end).
  all: try (match goal with Hx : set_unlock_schedule_v2 _ _ _ = Ok _ |- _ =>
              unfold set_unlock_schedule_v2 in Hx; mon_inv; rewrite st_emit, st_set_st; apply tls_same; reflexivity end).
  all: try (match goal with
            | Hx : filter_tickets _ _ _ = Ok _ |- _ => pose proof (gate_filter _ _ _ _ _ Hx) as (_ & _ & Hg); apply filter_tickets_tf in Hx
            | Hx : select_winners _ _ _ _ = Ok _ |- _ => pose proof (gate_select _ _ _ _ _ _ Hx) as (_ & _ & _ & Hg & _); apply select_winners_tf in Hx
            | Hx : distribute_guaranteed_tickets _ _ _ _ _ = Ok _ |- _ => pose proof (gate_distribute _ _ _ _ _ _ _ Hx) as (_ & Hg & _); apply distribute_tf in Hx
            | Hx : select_nft_winners_endpoint _ _ _ _ = Ok _ |- _ => pose proof (gate_select_nft _ _ _ _ _ _ Hx) as (_ & Hg & _); apply select_nft_endpoint_tf in Hx
            | Hx : secondary_selection_step _ _ _ _ = Ok _ |- _ => pose proof (gate_secondary _ _ _ _ _ _ Hx) as (_ & Hg & _); apply secondary_tf in Hx
            end;
            match goal with Hx : _ /\ _ |- _ => destruct Hx as (Ht & F1 & F2 & F3 & F4) end;
            apply terms_tl in Ht; apply tls_flags; [exact Ht | | | |]; unfold ble, flags_ord;
            match goal with n : N |- _ => destruct (N.eq_dec n 0) as [Hz|Hz];
              [specialize (F3 Hz) | specialize (F4 Hz)] end; intros;
            try rewrite F1 in *; try rewrite F2 in *;
            repeat match goal with Hi : ?a = true -> ?b = true |- _ =>
                     match goal with Ha : a = true |- _ => specialize (Hi Ha) end end;
            congruence).
  (* sftSetup *)
  all: try (inversion E; subst; apply tls_same; reflexivity).
  all: apply tls_same; reflexivity.
Qed.

End H.

(** ** whole transactions and histories *)
Lemma credit_payment_st' p : forall w0 from w1, credit_payment w0 from p = Ok w1 -> st w1 = st w0.
Proof.
  induction p as [|[[t k] a] p IH]; intros w0 from w1 E; cbn in E.
  - now inversion E.
  - apply bind_ok in E. destruct E as (wa & Ht & E). apply IH in E. apply transfer_tf in Ht. congruence.
Qed.

Section Hist.
Variable H : list N -> list N.

Theorem exec_tl_step v e b sd w c w' r :
  exec H v e b sd w c = Ok (w', r) -> tl_step e (st w) (st w').
Proof.
  unfold exec. intros E.
  destruct c; try (apply bind_ok in E; destruct E as (u & _ & E);
                   apply bind_ok in E; destruct E as (w1 & Hc & E);
                   apply credit_payment_st' in Hc; apply dispatch_tl_step in E; rewrite Hc in E; exact E).
  apply dispatch_tl_step in E. exact E.
Qed.

Theorem exec_stage_step v e e' b sd w c w' r :
  timeline_ok (st w) -> exec H v e b sd w c = Ok (w', r) -> round e <= round e' ->
  stage_le (get_launch_stage e (st w)) (get_launch_stage e' (st w')) /\ timeline_ok (st w') /\
  (flags_ord (st w) -> flags_ord (st w')).
Proof.
  intros Ht E Hr. apply exec_tl_step in E.
  destruct (tl_step_stage _ _ _ E Ht) as (Hs & Ht' & Hf).
  split; [|split; assumption].
  pose proof (stage_mono_round e e' (st w') Ht' Hr). unfold stage_le in *. lia.
Qed.

(** a history: accepted calls at non-decreasing rounds (rejected calls change nothing and are
    represented by [reach_wait]) *)
Inductive reaches (v : variant) : env -> world -> env -> world -> Prop :=
| reach_refl e w : reaches v e w e w
| reach_wait e w e1 e2 w2 : round e <= round e1 -> reaches v e1 w e2 w2 -> reaches v e w e2 w2
| reach_call e w b sd c w1 r e2 w2 :
    exec H v e b sd w c = Ok (w1, r) -> reaches v e w1 e2 w2 -> reaches v e w e2 w2.

Theorem stage_never_decreases v e w e2 w2 :
  reaches v e w e2 w2 -> timeline_ok (st w) ->
  stage_le (get_launch_stage e (st w)) (get_launch_stage e2 (st w2)) /\ timeline_ok (st w2) /\
  (flags_ord (st w) -> flags_ord (st w2)).
Proof.
  induction 1 as [e w | e w e1 e2 w2 Hr _ IH | e w b sd c w1 r e2 w2 Hx _ IH]; intros Ht.
  - unfold stage_le. split; [lia|]. split; [assumption|auto].
  - destruct (IH Ht) as (Hs & Ht2 & Hf). split; [|split; assumption].
    pose proof (stage_mono_round e e1 (st w) Ht Hr). unfold stage_le in *. lia.
  - assert (Hrr : round e <= round e) by lia.
    destruct (exec_stage_step v e e b sd w c w1 r Ht Hx Hrr) as (Hs1 & Ht1 & Hf1).
    destruct (IH Ht1) as (Hs & Ht2 & Hf). split; [|split; auto]. unfold stage_le in *. lia.
Qed.
End Hist.

(** deployment establishes the timeline order and unset flags *)
Lemma init_base_ok e lp tpt0 ptok pr nrw c ws cl add0 s :
  init_base e lp tpt0 ptok pr nrw c ws cl add0 = Ok s ->
  timeline_ok s /\ fl_filtered s = false /\ fl_selected s = false /\ fl_additional s = add0 /\
  0 < tpt s /\ 0 < price s /\ 0 < nr_winning s /\ token_valid (pay_token s) = true /\
  (pay_token s <> egld -> lp_token s <> pay_token s) /\ op s = OpNone /\ paused s = false /\ deposited s = false.
Proof.
  unfold init_base, try_set_tpt, try_set_ticket_price, try_set_nr_winning. intros E. mon_inv.
  match goal with Hx : require_valid_time_periods _ = Ok _ |- _ => apply valid_time_periods_ok in Hx end.
  repeat match goal with Hx : (_ <? _) = true |- _ => apply N.ltb_lt in Hx end.
  split; [exact (ltac:(match goal with Hx : timeline_ok _ |- _ => exact Hx end))|].
  cbn. repeat split; auto.
  intros Hne Heq. match goal with Hx : (if _ then _ else _) = Ok _ |- _ => rename Hx into Hif end.
  destruct (N.eqb_spec ptok egld); [contradiction|]. cbn in Hif. apply require_ok' in Hif.
  apply negb_true_iff in Hif. apply N.eqb_neq in Hif. contradiction.
Qed.
