(** * C04: an interrupted resumable endpoint, resumed later (by anyone, in any block), ends in exactly
    the world a single call with enough budget produces.  *)
From LP Require Import Proofs.Tactics Proofs.Loop.
Open Scope N_scope.

(** A loop body that commutes with a state transformer [g] (a change of fields the body neither
    reads nor writes) makes the whole loop commute with [g]. *)
Lemma run_while_commute {S : Type} (g : S -> S) (body : S -> res (S * bool)) :
  (forall s, body (g s) = match body s with Ok (s', c) => Ok (g s', c) | Err k => Err k end) ->
  forall b s, run_while b body (g s) =
              match run_while b body s with Ok (s', d, b') => Ok (g s', d, b') | Err k => Err k end.
Proof.
  intros Hg. induction b as [|b IH]; intros s; rewrite !run_while_eq, Hg;
    destruct (body s) as [[s' [|]]|k]; try reflexivity.
  apply IH.
Qed.

(** ** filterTickets *)

(** fields of the state that the filter loop leaves alone *)
Definition filter_frame (s s' : state) : Prop :=
  paused s' = paused s /\ conf_start s' = conf_start s /\ ws_start s' = ws_start s /\
  claim_start s' = claim_start s /\ fl_selected s' = fl_selected s /\ fl_additional s' = fl_additional s /\
  fl_filtered s' = fl_filtered s /\ last_ticket_id s' = last_ticket_id s /\ nr_winning s' = nr_winning s /\
  op s' = op s /\ fl_started s' = fl_started s.

Lemma filter_body_frame last s f r s' f' r' c :
  filter_body last (s, f, r) = Ok (s', f', r', c) -> filter_frame s s' /\ f <= f'.
Proof.
  unfold filter_body, filter_frame. destruct (f =? last + 1).
  { intros E; inversion E; subst. repeat split; auto; lia. }
  destruct (batch s f) as [[a n]|]; [|discriminate].
  intros E. mon_inv.
  match goal with H : (if _ then _ else _) = Ok _ |- _ => rename H into Hif end.
  destruct (confirmed s a =? 0).
  - inversion Hif; subst. cbn. repeat split; auto; lia.
  - destruct ((0 <? r) || (confirmed s a <? n)).
    + mon_inv. cbn. repeat split; auto; lia.
    + inversion Hif; subst. repeat split; auto; lia.
Qed.

Lemma filter_frame_refl s : filter_frame s s.
Proof. unfold filter_frame. repeat split. Qed.
Lemma filter_frame_trans a b c : filter_frame a b -> filter_frame b c -> filter_frame a c.
Proof. unfold filter_frame. intuition congruence. Qed.

Lemma filter_loop_frame last : forall b s f r s' f' r' d b',
  run_while b (filter_body last) (s, f, r) = Ok (s', f', r', d, b') -> filter_frame s s' /\ f <= f'.
Proof.
  intros b s f r s' f' r' d b' E.
  pose proof (run_invariant (filter_body last)
               (fun x => filter_frame s (fst (fst x)) /\ f <= snd (fst x))) as HI.
  cbn beta in HI. specialize (HI ltac:(intros [[sa fa] ra] [[sb fb] rb] c [Hf Hle] Eb; cbn in *;
      apply filter_body_frame in Eb; destruct Eb as [Hfr Hle2]; split;
      [eapply filter_frame_trans; eauto | lia]) b (s, f, r) (s', f', r') d b').
  cbn in HI. apply HI; auto. split; [apply filter_frame_refl | lia].
Qed.

(** re-loading a saved operation gives back the loop state *)
Lemma reload_filter s o :
  op s = OpNone -> s <| op := o |> <| op := OpNone |> <| fl_started := fl_started s |> = s.
Proof. destruct s; cbn; intros ->; reflexivity. Qed.

(** The saved cursor is at least the first ticket id. *)
Definition filter_op_ok (s : state) : Prop :=
  match op s with OpFilter f _ => 1 <= f | _ => True end.

Theorem filter_resume e1 e2 b1 b2 w w1 :
  filter_op_ok (st w) ->
  filter_tickets e1 b1 w = Ok (w1, 1) ->
  filter_tickets e2 b2 w1 = filter_tickets e2 (b1 + Datatypes.S b2) w /\ filter_op_ok (st w1).
Proof.
  unfold filter_tickets. intros Hop E.
  apply bind_ok in E. destruct E as (u1 & Hp & E).
  apply bind_ok in E. destruct E as (u2 & Hs & E).
  apply bind_ok in E. destruct E as (u3 & Hf & E).
  apply bind_ok in E. destruct E as ([f0 r0] & Hl & E).
  apply bind_ok in E. destruct E as ([[[[s1 f1] r1] done] bb] & Hrun & E).
  destruct done.
  { apply bind_ok in E. destruct E as (nl & _ & E). inversion E. }
  inversion E; subst w1; clear E.
  pose proof (run_interrupted_budget _ _ _ _ _ Hrun) as ->.
  destruct (filter_loop_frame _ _ _ _ _ _ _ _ _ _ Hrun) as [Hfr Hle].
  destruct Hfr as (Hpa & Hc1 & Hc2 & Hc3 & Hsel & Hadd & Hfil & Hlast & Hnw & Hopp & Hstart).
  cbn in Hpa, Hc1, Hc2, Hc3, Hsel, Hadd, Hfil, Hlast, Hnw, Hopp, Hstart.
  assert (Hf0 : 1 <= f0).
  { unfold load_filter_tickets_operation in Hl. unfold filter_op_ok in Hop.
    destruct (op (st w)); inversion Hl; subst; lia. }
  set (started := if f0 =? 1 then true else fl_started (st w)) in *.
  rewrite !st_set_st.
  assert (Hstage : get_launch_stage e2 (s1 <| op := OpFilter f1 r1 |>) = get_launch_stage e2 (st w)).
  { unfold get_launch_stage. cbn. rewrite Hc1, Hc2, Hc3, Hsel, Hadd. reflexivity. }
  unfold require_stage. rewrite Hstage.
  split.
  2:{ unfold filter_op_ok. cbn. lia. }
  change (paused (s1 <| op := OpFilter f1 r1 |>)) with (paused s1).
  change (fl_filtered (s1 <| op := OpFilter f1 r1 |>)) with (fl_filtered s1).
  change (last_ticket_id (s1 <| op := OpFilter f1 r1 |>)) with (last_ticket_id s1).
  change (fl_started (s1 <| op := OpFilter f1 r1 |>)) with (fl_started s1).
  rewrite Hpa, Hfil, Hlast.
  destruct (require (negb (paused (st w)))) as [[]|]; [|reflexivity]. cbn [bind].
  destruct (require (stage_eqb (get_launch_stage e2 (st w)) WinnerSelection)) as [[]|]; [|reflexivity]. cbn [bind].
  destruct (require (negb (fl_filtered (st w)))) as [[]|]; [|reflexivity]. cbn [bind].
  rewrite Hl. cbn [bind].
  unfold load_filter_tickets_operation.
  change (op (s1 <| op := OpFilter f1 r1 |>)) with (OpFilter f1 r1). cbn [bind].
  rewrite (run_split _ _ _ _ _ Hrun).
  assert (Hst2 : (if f1 =? 1 then true else fl_started s1) = fl_started s1).
  { destruct (N.eqb_spec f1 1); [|reflexivity]. rewrite Hstart. subst started.
    destruct (N.eqb_spec f0 1); [reflexivity|lia]. }
  rewrite Hst2, (reload_filter s1 _ Hopp).
  reflexivity.
Qed.

(** ** selectWinners *)
Section Select.
Variable H : list N -> list N.

(** fields the selection loop leaves alone *)
Definition select_frame (w w' : world) : Prop :=
  let s := st w in let s' := st w' in
  paused s' = paused s /\ conf_start s' = conf_start s /\ ws_start s' = ws_start s /\
  claim_start s' = claim_start s /\ fl_selected s' = fl_selected s /\ fl_additional s' = fl_additional s /\
  fl_filtered s' = fl_filtered s /\ last_ticket_id s' = last_ticket_id s /\ nr_winning s' = nr_winning s /\
  op s' = op s /\ price s' = price s /\ bal w' = bal w /\ seeds w' = seeds w /\ evs w' = evs w.

Lemma select_frame_refl w : select_frame w w.
Proof. unfold select_frame. repeat split. Qed.
Lemma select_frame_trans a b c : select_frame a b -> select_frame b c -> select_frame a c.
Proof. unfold select_frame. cbn zeta. intuition congruence. Qed.

Lemma select_body_frame nrw last w r p w' r' p' c :
  select_body H nrw last (w, r, p) = Ok (w', r', p', c) -> select_frame w w'.
Proof.
  unfold select_body. destruct (nrw =? 0).
  { intros E; inversion E; subst. apply select_frame_refl. }
  unfold shuffle_single_ticket, next_usize_in_range, next_usize.
  destruct w as [s b ev rl lk sd]. cbn.
  destruct (p =? nrw); intros E; inversion E; subst; unfold select_frame; cbn; repeat split.
Qed.

Lemma select_loop_frame nrw last : forall b w r p w' r' p' d b',
  run_while b (select_body H nrw last) (w, r, p) = Ok (w', r', p', d, b') -> select_frame w w'.
Proof.
  intros b w r p w' r' p' d b' E.
  pose proof (run_invariant (select_body H nrw last) (fun x => select_frame w (fst (fst x)))) as HI.
  cbn beta in HI. specialize (HI ltac:(intros [[wa ra] pa] [[wb rb] pb] c Hf Eb; cbn in *;
      apply select_body_frame in Eb; eapply select_frame_trans; eauto) b (w, r, p) (w', r', p') d b').
  cbn in HI. apply HI; auto. apply select_frame_refl.
Qed.

Lemma reload_op w o : op (st w) = OpNone -> set_st (set_st w (st w <| op := o |>)) (st w <| op := o |> <| op := OpNone |>) = w.
Proof. destruct w as [s ? ? ? ? ?]. destruct s; cbn; intros ->; reflexivity. Qed.

Theorem select_resume e1 e2 b1 b2 w w1 :
  select_winners H e1 b1 w = Ok (w1, 1) ->
  select_winners H e2 b2 w1 = select_winners H e2 (b1 + Datatypes.S b2) w.
Proof.
  unfold select_winners. intros E.
  apply bind_ok in E. destruct E as (u1 & Hp & E).
  apply bind_ok in E. destruct E as (u2 & Hs & E).
  apply bind_ok in E. destruct E as (u3 & Hc & E).
  apply bind_ok in E. destruct E as (u4 & Hf & E).
  apply bind_ok in E. destruct E as (u5 & Hns & E).
  apply bind_ok in E. destruct E as ([[r0 p0] w0] & Hl & E).
  apply bind_ok in E. destruct E as ([[[[wl rl] pl] done] bb] & Hrun & E).
  destruct done; [inversion E|].
  inversion E; subst w1; clear E.
  pose proof (run_interrupted_budget _ _ _ _ _ Hrun) as ->.
  pose proof (select_loop_frame _ _ _ _ _ _ _ _ _ _ _ Hrun) as Hfr.
  assert (Hw0 : st w0 = st w).
  { unfold load_select_winners_operation in Hl. destruct (op (st w)) eqn:Eop; try discriminate.
    - unfold rng_default in Hl. destruct (seeds w); inversion Hl; subst; cbn; auto.
    - inversion Hl; subst; auto. }
  destruct Hfr as (Hpa & Hc1 & Hc2 & Hc3 & Hsel & Hadd & Hfil & Hlast & Hnw & Hopp & Hpr & Hbal & Hseeds & Hevs).
  rewrite !st_set_st in Hpa, Hc1, Hc2, Hc3, Hsel, Hadd, Hfil, Hlast, Hnw, Hopp, Hpr.
  cbn in Hpa, Hc1, Hc2, Hc3, Hsel, Hadd, Hfil, Hlast, Hnw, Hopp, Hpr.
  rewrite Hw0 in Hpa, Hc1, Hc2, Hc3, Hsel, Hadd, Hfil, Hlast, Hnw, Hpr.
  rewrite !st_set_st.
  assert (Hstage : get_launch_stage e2 (st wl <| op := OpSelect rl pl |>) = get_launch_stage e2 (st w)).
  { unfold get_launch_stage. cbn. rewrite Hc1, Hc2, Hc3, Hsel, Hadd. reflexivity. }
  unfold require_stage. rewrite Hstage.
  change (paused (st wl <| op := OpSelect rl pl |>)) with (paused (st wl)).
  change (fl_filtered (st wl <| op := OpSelect rl pl |>)) with (fl_filtered (st wl)).
  change (fl_selected (st wl <| op := OpSelect rl pl |>)) with (fl_selected (st wl)).
  change (nr_winning (st wl <| op := OpSelect rl pl |>)) with (nr_winning (st wl)).
  change (last_ticket_id (st wl <| op := OpSelect rl pl |>)) with (last_ticket_id (st wl)).
  rewrite Hpa, Hfil, Hsel, Hnw, Hlast.
  destruct (require (negb (paused (st w)))) as [[]|]; [|reflexivity]. cbn [bind].
  destruct (require (stage_eqb (get_launch_stage e2 (st w)) WinnerSelection)) as [[]|]; [|reflexivity]. cbn [bind].
  destruct (check_caller_owner_or_user e2) as [[]|]; [|reflexivity]. cbn [bind].
  destruct (require (fl_filtered (st w))) as [[]|]; [|reflexivity]. cbn [bind].
  destruct (require (negb (fl_selected (st w)))) as [[]|]; [|reflexivity]. cbn [bind].
  rewrite Hl. cbn [bind].
  rewrite (run_split _ _ _ _ _ Hrun).
  unfold load_select_winners_operation. rewrite st_set_st.
  change (op (st wl <| op := OpSelect rl pl |>)) with (OpSelect rl pl). cbn [bind].
  rewrite st_set_st, (reload_op wl _ Hopp). reflexivity.
Qed.

(** The resumed call neither reads nor consumes the fresh seeds of its own transaction: the
    randomness of the draw is fixed by the call that started it. *)
Theorem select_resumed_ignores_seeds e b w r p sd :
  op (st w) = OpSelect r p ->
  select_winners H e b (w <| seeds := sd |>) =
  match select_winners H e b w with
  | Ok (w', x) => Ok (w' <| seeds := sd |>, x)
  | Err k => Err k
  end.
Proof.
  intros Hop. unfold select_winners.
  change (st (w <| seeds := sd |>)) with (st w).
  destruct (require (negb (paused (st w)))) as [[]|]; [|reflexivity]. cbn [bind].
  destruct (require_stage e (st w) WinnerSelection) as [[]|]; [|reflexivity]. cbn [bind].
  destruct (check_caller_owner_or_user e) as [[]|]; [|reflexivity]. cbn [bind].
  destruct (require (fl_filtered (st w))) as [[]|]; [|reflexivity]. cbn [bind].
  destruct (require (negb (fl_selected (st w)))) as [[]|]; [|reflexivity]. cbn [bind].
  unfold load_select_winners_operation.
  change (st (w <| seeds := sd |>)) with (st w). rewrite Hop. cbn [bind].
  pose (g := fun x : world * rng * N => let '(w, r, p) := x in (w <| seeds := sd |>, r, p)).
  cbn zeta. change (st (w <| seeds := sd |>)) with (st w).
  replace (set_st (w <| seeds := sd |>) (st w <| op := OpNone |>), r, p)
    with (g (set_st w (st w <| op := OpNone |>), r, p)) by reflexivity.
  rewrite (run_while_commute g).
  2:{ intros [[wa ra] pa]. unfold g, select_body. destruct (nr_winning (st w) =? 0); [reflexivity|].
      unfold shuffle_single_ticket, next_usize_in_range, next_usize.
      destruct wa as [sa ? ? ? ? ?]. cbn. destruct (pa =? nr_winning (st w)); reflexivity. }
  destruct (run_while b _ _) as [[[[[w2 r2] p2] d2] bb2]|k]; [|reflexivity].
  cbn [bind g]. destruct d2; destruct w2 as [s2 ? ? ? ? ?]; reflexivity.
Qed.

End Select.

(** ** Any number of interruptions.  [ep] is a resumable endpoint with its resume law (possibly under
    an invariant [I] of the worlds it is started from). *)
Section Multi.
Variable ep : env -> nat -> world -> res (world * N).
Variable I : world -> Prop.
Hypothesis resume : forall e1 e2 b1 b2 w w1,
  I w -> ep e1 b1 w = Ok (w1, 1) -> ep e2 b2 w1 = ep e2 (b1 + Datatypes.S b2) w /\ I w1.

(** the calls of [l] are all interrupted ([Ok (_, 1)]); then the call [(e, b)] is made *)
Fixpoint after_interrupted (l : list (env * nat)) (w : world) : option world :=
  match l with
  | [] => Some w
  | (e1, b1) :: r =>
      match ep e1 b1 w with
      | Ok (w1, 1) => after_interrupted r w1
      | _ => None
      end
  end.

Definition total_budget (l : list (env * nat)) (b : nat) : nat :=
  fold_right (fun x acc => (snd x + Datatypes.S acc)%nat) b l.

Theorem multi_resume : forall l w wk e b,
  I w -> after_interrupted l w = Some wk ->
  ep e b wk = ep e (total_budget l b) w.
Proof.
  induction l as [|[e1 b1] l IH]; intros w wk e b Hi Ha; cbn in Ha.
  - inversion Ha; subst. reflexivity.
  - destruct (ep e1 b1 w) as [[w1 x]|] eqn:E1; [|discriminate].
    destruct x as [|p]; [discriminate|]. destruct p; try discriminate.
    destruct (resume e1 e (b1) (total_budget l b) w w1 Hi E1) as [Hr Hi1].
    cbn [total_budget fold_right snd]. fold (total_budget l b).
    rewrite <- Hr. apply IH; auto.
Qed.
End Multi.

Theorem filter_multi_resume : forall l w wk e b,
  filter_op_ok (st w) -> after_interrupted filter_tickets l w = Some wk ->
  filter_tickets e b wk = filter_tickets e (total_budget l b) w.
Proof.
  intros l w wk e b Hi. apply (multi_resume filter_tickets (fun w => filter_op_ok (st w))); auto.
  intros e1 e2 b1 b2 w0 w1 Hi0 E. eapply filter_resume; eauto.
Qed.

Theorem select_multi_resume (H : list N -> list N) : forall l w wk e b,
  after_interrupted (select_winners H) l w = Some wk ->
  select_winners H e b wk = select_winners H e (total_budget l b) w.
Proof.
  intros l w wk e b. apply (multi_resume (select_winners H) (fun _ => True)); auto.
  intros e1 e2 b1 b2 w0 w1 _ E. split; auto. eapply select_resume; eauto.
Qed.
