(** * From deployment to the end of the confirmation window, guaranteed-ticket contracts
    (gt1 mig lgt: v1 allocation; gt2: v2 allocation): allocation with guarantees, deposit,
    confirmation, pause and timeline / support / tokens-per-ticket transactions keep [PreSel] and a
    duplicate-free holder list - the hypotheses of the three-stage pipeline. *)
From Coq Require Import Permutation.
From LP Require Import Proofs.Tactics Proofs.LedgerBase Proofs.Loop Proofs.Shuffle Proofs.Gates Proofs.Frames Proofs.Filter
  Proofs.Alloc Proofs.Confirm Proofs.Settle Proofs.Ledger Proofs.Stage Proofs.Resume Proofs.FisherYates Proofs.Rng
  Proofs.Guaranteed Proofs.Nft Proofs.GuaranteedLoop Proofs.Leftover Proofs.ClaimLedger Proofs.Partition Proofs.Lifecycle Proofs.Setup
  Proofs.Vesting Proofs.Examples.
Open Scope N_scope.

Lemma set_insert_NoDup x l : NoDup l -> NoDup (set_insert x l).
Proof.
  intros Hnd. unfold set_insert. destruct (mem x l) eqn:Em; [exact Hnd|].
  apply NoDup_snoc; [exact Hnd|]. intros Hi. apply mem_In' in Hi. congruence.
Qed.

(** one allocation as far as [Pre] can see it: the fields [Pre] reads are those of [alloc_one] *)
Definition galloc (s : state) (a n : N) (s' : state) : Prop :=
  neutral (alloc_one s a n) s' /\ range s a = None /\ (NoDup (gt_users s) -> NoDup (gt_users s')).

Lemma Pre_galloc w l a n s' :
  Pre w l -> 0 < n -> a <> sc_addr -> galloc (st w) a n s' -> Pre (set_st w s') (l ++ [(a, n)]).
Proof.
  intros Hp Hn Ha (Hneu & Hnone & _).
  assert (Hp1 : Pre (set_st w (alloc_one (st w) a n)) (l ++ [(a, n)])).
  { destruct Hp as [[Hop Hch Hown Hnd Hcf Hfresh Hpay Hnone'] Htok Hknown].
    destruct (alloc_one_inv (st w) l a n Hch Hown Hnd Hknown Hnone) as (Hc1 & Ho1 & Hnd1 & Hr1).
    replace (0 <? n) with true in * by (symmetry; apply N.ltb_lt; exact Hn).
    assert (Hna : ~ In a (map fst l)) by (intros Hi; apply (Hknown a Hi); exact Hnone).
    assert (Hca : confirmed (st w) a = 0) by (apply (pi_support _ _ Hpay); exact Hna).
    constructor; [constructor|..]; rewrite ?st_set_st; auto.
    - apply Forall_app. split; [exact Hcf|]. constructor; [|constructor]. cbn [fst snd].
      change (confirmed (alloc_one (st w) a n) a) with (confirmed (st w) a). rewrite Hca. lia.
    - rewrite map_app. cbn [map fst]. eapply PayInv_frame with (w := w);
        [apply PayInv_extend; assumption | reflexivity | reflexivity | intros; reflexivity].
    - intros x Hx. rewrite map_app in Hx. cbn [map fst] in Hx.
      rewrite alloc_one_range_other; [apply Hnone'|]; [intros Hi|intros ->]; apply Hx; apply in_or_app; cbn; auto. }
  apply (Pre_neutral (set_st w (alloc_one (st w) a n)) (set_st w s') _); [rewrite !st_set_st; exact Hneu | reflexivity | exact Hp1].
Qed.

(** ** v1 *)
Lemma add_one_v1_galloc minc s tw tg buyer staking energy mig s' tw' tg' :
  add_one_v1 minc (s, tw, tg) (buyer, staking, energy, mig) = Ok (s', tw', tg') ->
  galloc s buyer (staking + energy) s'.
Proof.
  unfold add_one_v1. intros E.
  apply bind_ok in E. destruct E as (u1 & Hu1 & E). apply bind_ok in E. destruct E as (u2 & Hu2 & E).
  apply bind_ok in E. destruct E as (s1 & Hc & E).
  assert (Hlim : staking + energy < usize_lim \/ True) by (right; exact I). clear Hlim.
  unfold try_create_tickets in Hc.
  apply bind_ok in Hc. destruct Hc as (u0 & Hpos0 & Hc). apply require_ok' in Hpos0. apply N.ltb_lt in Hpos0.
  apply bind_ok in Hc. destruct Hc as (u3 & Hr & Hc). apply require_ok' in Hr.
  assert (Hnone : range s buyer = None) by (destruct (range s buyer); [discriminate|reflexivity]).
  apply bind_ok in Hc. destruct Hc as (m & _ & Hc). apply bind_ok in Hc. destruct Hc as (u4 & _ & Hc).
  apply bind_ok in Hc. destruct Hc as (la & Hla & Hc). apply usub_ok in Hla. destruct Hla as [_ ->].
  inversion Hc; subst s1; clear Hc.
  apply bind_ok in E. destruct E as ([[[s2 tw2] tg2] us2] & H1 & E).
  apply bind_ok in E. destruct E as ([[[s3 tw3] tg3] us3] & H2 & E).
  inversion E; subst s' tw' tg'; clear E.
  set (sa := s <| range := _ |> <| batch := _ |> <| last_ticket_id := _ |>) in *.
  assert (Hsa : neutral (alloc_one s buyer (staking + energy)) sa).
  { unfold sa, alloc_one, neutral. cbn. repeat split. }
  assert (H12 : (exists g, s2 = sa <| gt_users := g |> /\ (NoDup (gt_users s) -> NoDup g))).
  { destruct (minc <=? staking).
    - apply bind_ok in H1. destruct H1 as (u5 & _ & H1). inversion H1; subst. eexists. split; [reflexivity|].
      intros Hnd. apply set_insert_NoDup. exact Hnd.
    - inversion H1; subst. exists (gt_users sa). split; [destruct sa; reflexivity|]. intros Hnd; exact Hnd. }
  destruct H12 as (g2 & -> & Hg2).
  assert (H23 : (exists g, s3 = sa <| gt_users := g |> /\ (NoDup (gt_users s) -> NoDup g))).
  { destruct mig.
    - apply bind_ok in H2. destruct H2 as (u6 & _ & H2). inversion H2; subst. eexists. split; [reflexivity|].
      intros Hnd. apply set_insert_NoDup. cbn. apply Hg2. exact Hnd.
    - inversion H2; subst. exists g2. split; [reflexivity|exact Hg2]. }
  destruct H23 as (g3 & -> & Hg3).
  split; [|split; [exact Hnone|]].
  - destruct Hsa as (A1 & A2 & A3 & A4 & A5 & A6 & A7 & A8 & A9 & A10). unfold neutral. cbn in *. repeat split; assumption.
  - intros Hnd. cbn. apply Hg3. exact Hnd.
Qed.

Record PreG (w : world) (l : list (N * N)) : Prop := {
  pg_pre : Pre w l;
  pg_nodup : NoDup (gt_users (st w))
}.

Lemma PreG_galloc w l a n s' :
  PreG w l -> 0 < n -> a <> sc_addr -> galloc (st w) a n s' -> PreG (set_st w s') (l ++ [(a, n)]).
Proof.
  intros [Hp Hg] Hn Ha Hga. constructor; [eapply Pre_galloc; eauto|].
  rewrite st_set_st. destruct Hga as (_ & _ & Hk). apply Hk. exact Hg.
Qed.

Lemma PreG_neutral w w' l :
  neutral (st w) (st w') -> gt_users (st w') = gt_users (st w) ->
  bal w' sc_addr (pay_token (st w)) 0 = bal w sc_addr (pay_token (st w)) 0 -> PreG w l -> PreG w' l.
Proof. intros Hn Hg Hb [Hp Hnd]. constructor; [eapply Pre_neutral_gen; eauto | rewrite Hg; exact Hnd]. Qed.

(** ** v1 allocation of a batch *)
Definition v1_sizes (lx : list (N * N * N * bool)) : list (N * N) :=
  map (fun x => (fst (fst (fst x)), snd (fst (fst x)) + snd (fst x))) lx.

Lemma add_loop_v1_PreG minc w : forall lx s tw tg s' tw' tg' l,
  PreG (set_st w s) l ->
  Forall (fun x => 0 < snd x) (v1_sizes lx) -> ~ In sc_addr (map fst (v1_sizes lx)) ->
  add_loop_v1 minc (s, tw, tg) lx = Ok (s', tw', tg') ->
  PreG (set_st w s') (l ++ v1_sizes lx).
Proof.
  induction lx as [|[[[buyer staking] energy] mig] lx IH]; intros s tw tg s' tw' tg' l Hp Hpos Hsc E; cbn in E.
  - inversion E; subst. cbn. rewrite app_nil_r. exact Hp.
  - apply bind_ok in E. destruct E as ([[s1 tw1] tg1] & H1 & E).
    cbn [v1_sizes map fst snd] in *. inversion Hpos as [|? ? Hn Hpos']; subst. cbn [snd] in Hn.
    apply add_one_v1_galloc in H1.
    pose proof (PreG_galloc (set_st w s) l buyer (staking + energy) s1 Hp Hn
                  ltac:(intros ->; apply Hsc; left; reflexivity)) as Hp1.
    rewrite st_set_st, set_st_set_st in Hp1. specialize (Hp1 H1).
    match goal with |- PreG _ (l ++ ?x :: ?rest) => change (l ++ x :: rest) with (l ++ [x] ++ rest); rewrite app_assoc end.
    fold (v1_sizes lx).
    eapply IH; [exact Hp1 | exact Hpos' | intros Hi; apply Hsc; right; exact Hi | exact E].
Qed.

Theorem PreG_add_tickets_v1 e w l lx w' :
  PreG w l -> Forall (fun x => 0 < snd x) (v1_sizes lx) -> ~ In sc_addr (map fst (v1_sizes lx)) ->
  add_tickets_v1 e w lx = Ok w' -> PreG w' (l ++ v1_sizes lx).
Proof.
  intros Hp Hpos Hsc E. unfold add_tickets_v1 in E.
  apply bind_ok in E. destruct E as (u & _ & E).
  apply bind_ok in E. destruct E as ([[s' tw] tg] & Hloop & E). inversion E; subst w'; clear E.
  assert (Hp0 : PreG (set_st w (st w)) l) by (destruct w; exact Hp).
  pose proof (add_loop_v1_PreG _ w lx _ _ _ _ _ _ l Hp0 Hpos Hsc Hloop) as Hp1.
  eapply PreG_neutral; [| | |exact Hp1]; rewrite ?st_set_st; cbn; try reflexivity.
  unfold neutral. cbn. repeat split.
Qed.

(** ** v2 allocation of a batch: entries with a zero allowance are skipped *)
Definition v2_sizes (lx : list (N * N * list (N * N))) : list (N * N) :=
  map (fun x => (fst (fst x), snd (fst x))) (filter (fun x => negb (snd (fst x) =? 0)) lx).

Lemma add_one_v2_galloc s tw tg uc ta ga buyer allowance infos s' tw' tg' uc' ta' ga' :
  allowance <> 0 ->
  add_one_v2 (s, tw, tg, uc, ta, ga) (buyer, allowance, infos) = Ok (s', tw', tg', uc', ta', ga') ->
  galloc s buyer allowance s'.
Proof.
  intros Hnz. unfold add_one_v2. destruct (N.eqb_spec allowance 0); [contradiction|]. intros E.
  apply bind_ok in E. destruct E as (u1 & _ & E). apply bind_ok in E. destruct E as (u2 & _ & E).
  apply bind_ok in E. destruct E as (u3 & _ & E).
  apply bind_ok in E. destruct E as (s1 & Hc & E).
  unfold try_create_tickets in Hc.
  apply bind_ok in Hc. destruct Hc as (u0 & _ & Hc).
  apply bind_ok in Hc. destruct Hc as (u4 & Hr & Hc). apply require_ok' in Hr.
  assert (Hnone : range s buyer = None) by (destruct (range s buyer); [discriminate|reflexivity]).
  apply bind_ok in Hc. destruct Hc as (m & _ & Hc). apply bind_ok in Hc. destruct Hc as (u5 & _ & Hc).
  apply bind_ok in Hc. destruct Hc as (la & Hla & Hc). apply usub_ok in Hla. destruct Hla as [_ ->].
  inversion Hc; subst s1; clear Hc.
  apply bind_ok in E. destruct E as (u6 & _ & E).
  set (sa := s <| range := _ |> <| batch := _ |> <| last_ticket_id := _ |>) in *.
  assert (Hsa : neutral (alloc_one s buyer allowance) sa) by (unfold sa, alloc_one, neutral; cbn; repeat split).
  destruct Hsa as (A1 & A2 & A3 & A4 & A5 & A6 & A7 & A8 & A9 & A10).
  destruct (0 <? infos_sum infos).
  - apply bind_ok in E. destruct E as (u7 & _ & E). inversion E; subst; clear E.
    split; [unfold neutral; cbn in *; repeat split; assumption|]. split; [exact Hnone|].
    intros Hnd. cbn. apply set_insert_NoDup. exact Hnd.
  - inversion E; subst; clear E.
    split; [unfold neutral; cbn in *; repeat split; assumption|]. split; [exact Hnone|].
    intros Hnd. exact Hnd.
Qed.

Lemma add_loop_v2_PreG w : forall lx s tw tg uc ta ga s' tw' tg' uc' ta' ga' l,
  PreG (set_st w s) l -> ~ In sc_addr (map fst (v2_sizes lx)) ->
  add_loop_v2 (s, tw, tg, uc, ta, ga) lx = Ok (s', tw', tg', uc', ta', ga') ->
  PreG (set_st w s') (l ++ v2_sizes lx).
Proof.
  induction lx as [|[[buyer allowance] infos] lx IH]; intros s tw tg uc ta ga s' tw' tg' uc' ta' ga' l Hp Hsc E; cbn [add_loop_v2] in E.
  - inversion E; subst. cbn. rewrite app_nil_r. exact Hp.
  - apply bind_ok in E. destruct E as (u0 & _ & E).
    apply bind_ok in E. destruct E as ([[[[[s1 tw1] tg1] uc1] ta1] ga1] & H1 & E).
    unfold v2_sizes in Hsc |- *. cbn [filter fst snd] in Hsc |- *.
    destruct (N.eqb_spec allowance 0) as [Hz|Hnz]; cbn [negb] in Hsc |- *.
    + subst allowance. unfold add_one_v2 in H1. cbn [N.eqb] in H1. inversion H1; subst. eapply IH; eauto.
    + cbn [map fst snd] in Hsc |- *.
      pose proof (add_one_v2_galloc _ _ _ _ _ _ _ _ _ _ _ _ _ _ _ Hnz H1) as Hga.
      pose proof (PreG_galloc (set_st w s) l buyer allowance s1 Hp ltac:(lia)
                    ltac:(intros ->; apply Hsc; left; reflexivity)) as Hp1.
      rewrite st_set_st, set_st_set_st in Hp1. specialize (Hp1 Hga).
      match goal with |- PreG _ (l ++ ?x :: ?rest) => change (l ++ x :: rest) with (l ++ [x] ++ rest); rewrite app_assoc end.
      eapply IH; [exact Hp1 | intros Hi; apply Hsc; right; exact Hi | exact E].
Qed.

Theorem PreG_add_tickets_v2 e w l lx w' :
  PreG w l -> ~ In sc_addr (map fst (v2_sizes lx)) ->
  add_tickets_v2 e w lx = Ok w' -> PreG w' (l ++ v2_sizes lx).
Proof.
  intros Hp Hsc E. unfold add_tickets_v2 in E.
  apply bind_ok in E. destruct E as (u & _ & E).
  apply bind_ok in E. destruct E as ([[[[[s' tw] tg] uc] ta] ga] & Hloop & E). inversion E; subst w'; clear E.
  assert (Hp0 : PreG (set_st w (st w)) l) by (destruct w; exact Hp).
  pose proof (add_loop_v2_PreG w lx _ _ _ _ _ _ _ _ _ _ _ _ l Hp0 Hsc Hloop) as Hp1.
  eapply PreG_neutral; [| | |exact Hp1]; rewrite ?st_emit, ?st_set_st, ?bal_emit; cbn; try reflexivity.
  unfold neutral. cbn. repeat split.
Qed.

(** ** the transactions common to all contracts *)
Lemma PreG_ext w w' l : st w' = st w -> bal w' = bal w -> PreG w l -> PreG w' l.
Proof. intros Hs Hb [Hp Hg]. constructor; [eapply Pre_ext; eauto | rewrite Hs; exact Hg]. Qed.

(** ** blacklisting, refunding and un-blacklisting participants of the guaranteed-ticket contracts *)

(** what the guarantee part of these endpoints may change *)
Definition gt_only (s s' : state) : Prop :=
  exists g u b, s' = s <| gt_users := g |> <| uts := u |> <| bl_uts := b |>.
Lemma gt_only_refl s : gt_only s s.
Proof. exists (gt_users s), (uts s), (bl_uts s). destruct s; reflexivity. Qed.
Lemma gt_only_trans a b c : gt_only a b -> gt_only b c -> gt_only a c.
Proof. intros (g & u & bl & ->) (g' & u' & bl' & ->). exists g', u', bl'. reflexivity. Qed.
Lemma gt_only_gub s g u b : gt_only s (s <| gt_users := g |> <| uts := u |> <| bl_uts := b |>).
Proof. exists g, u, b. reflexivity. Qed.
Lemma gt_only_bgu s g u b : gt_only s (s <| gt_users := g |> <| bl_uts := b |> <| uts := u |>).
Proof. exists g, u, b. destruct s; reflexivity. Qed.
Lemma gt_only_bu s u b : gt_only s (s <| bl_uts := b |> <| uts := u |>).
Proof. exists (gt_users s), u, b. destruct s; reflexivity. Qed.
Lemma gt_only_neutral s s' : gt_only s s' -> neutral s s'.
Proof. intros (g & u & b & ->). unfold neutral. cbn. repeat split. Qed.

Lemma swap_remove_NoDup x l : NoDup l -> NoDup (swap_remove x l).
Proof.
  intros Hnd. destruct (mem x l) eqn:Em.
  - apply mem_In' in Em. apply (swap_remove_facts x l Hnd Em).
  - unfold swap_remove. rewrite Em. exact Hnd.
Qed.

Lemma clear_gt_loop_v1_only : forall l s rm tg s' rm' tg',
  clear_gt_loop_v1 (s, rm, tg) l = Ok (s', rm', tg') ->
  gt_only s s' /\ (NoDup (gt_users s) -> NoDup (gt_users s')).
Proof.
  induction l as [|u l IH]; intros s rm tg s' rm' tg' E; cbn [clear_gt_loop_v1] in E.
  - inversion E; subst. split; [apply gt_only_refl|auto].
  - destruct (mem u (gt_users s)).
    + apply bind_ok in E. destruct E as (tg1 & _ & E). apply bind_ok in E. destruct E as (tg2 & _ & E).
      destruct (IH _ _ _ _ _ _ E) as [Ho Hn]. split.
      * eapply gt_only_trans; [|exact Ho]. apply gt_only_gub.
      * intros Hnd. apply Hn. cbn. apply swap_remove_NoDup. exact Hnd.
    + eapply IH; eauto.
Qed.

Lemma clear_gt_loop_v2_only : forall l s nw tg s' nw' tg',
  clear_gt_loop_v2 (s, nw, tg) l = Ok (s', nw', tg') ->
  gt_only s s' /\ (NoDup (gt_users s) -> NoDup (gt_users s')).
Proof.
  induction l as [|u l IH]; intros s nw tg s' nw' tg' E; cbn [clear_gt_loop_v2] in E.
  - inversion E; subst. split; [apply gt_only_refl|auto].
  - apply bind_ok in E. destruct E as (tg1 & _ & E).
    destruct (IH _ _ _ _ _ _ E) as [Ho Hn]. split.
    + eapply gt_only_trans; [|exact Ho]. apply gt_only_gub.
    + intros Hnd. apply Hn. cbn. apply swap_remove_NoDup. exact Hnd.
Qed.

Lemma unbl_gt_loop_v1_only : forall l s nw tg s' nw' tg',
  unbl_gt_loop_v1 (s, nw, tg) l = Ok (s', nw', tg') ->
  gt_only s s' /\ (NoDup (gt_users s) -> NoDup (gt_users s')).
Proof.
  induction l as [|u l IH]; intros s nw tg s' nw' tg' E; cbn [unbl_gt_loop_v1] in E.
  - inversion E; subst. split; [apply gt_only_refl|auto].
  - destruct (_ || _); [eapply IH; eauto|].
    destruct (mem u (gt_users s)) eqn:Em; [eapply IH; eauto|].
    apply bind_ok in E. destruct E as (u1 & _ & E).
    apply bind_ok in E. destruct E as (nw1 & _ & E). apply bind_ok in E. destruct E as (nw2 & _ & E).
    destruct (IH _ _ _ _ _ _ E) as [Ho Hn]. split.
    + eapply gt_only_trans; [|exact Ho]. apply gt_only_bgu.
    + intros Hnd. apply Hn. cbn. apply NoDup_snoc; [exact Hnd|]. intros Hi. apply mem_In' in Hi. congruence.
Qed.

Lemma unbl_gt_loop_v2_only : forall l s nw tg s' nw' tg',
  unbl_gt_loop_v2 (s, nw, tg) l = Ok (s', nw', tg') ->
  gt_only s s' /\ (NoDup (gt_users s) -> NoDup (gt_users s')).
Proof.
  induction l as [|u l IH]; intros s nw tg s' nw' tg' E; cbn [unbl_gt_loop_v2] in E.
  - inversion E; subst. split; [apply gt_only_refl|auto].
  - destruct (range s u); [|eapply IH; eauto].
    apply bind_ok in E. destruct E as ([[s1 nw1] tg1] & H1 & E).
    destruct (IH _ _ _ _ _ _ E) as [Ho Hn].
    destruct (0 <? _).
    + apply bind_ok in H1. destruct H1 as (u1 & _ & H1). inversion H1; subst s1 nw1 tg1; clear H1. split.
      * eapply gt_only_trans; [|exact Ho]. apply gt_only_bgu.
      * intros Hnd. apply Hn. cbn. apply set_insert_NoDup. exact Hnd.
    + inversion H1; subst s1 nw1 tg1; clear H1. split.
      * eapply gt_only_trans; [|exact Ho]. apply gt_only_bu.
      * intros Hnd. apply Hn. cbn. exact Hnd.
Qed.

Lemma PreG_gt_only w l s' nw tg :
  PreG w l -> gt_only (st w) s' -> NoDup (gt_users s') ->
  PreG (set_st w (s' <| nr_winning := nw |> <| total_guaranteed := tg |>)) l.
Proof.
  intros [Hp Hg] Ho Hnd. constructor; [|rewrite st_set_st; exact Hnd].
  eapply Pre_neutral_gen; [| |exact Hp]; rewrite ?st_set_st, ?bal_set_st; [|reflexivity].
  destruct Ho as (g & u & b & ->). unfold neutral. cbn. repeat split.
Qed.

Lemma PreG_blacklist_loop e : forall la w l w',
  PreG w l -> ~ In sc_addr la -> blacklist_loop e w la = Ok w' -> PreG w' l.
Proof.
  induction la as [|a la IH]; intros w l w' Hp Hsc E; [inversion E; subst; exact Hp|].
  rewrite blacklist_loop_cons in E. apply bind_ok in E. destruct E as (w1 & H1 & E).
  eapply IH; [|intros Hi; apply Hsc; now right|exact E].
  destruct Hp as [Hp Hg]. constructor.
  - eapply Pre_bl_one; [exact Hp| |exact H1]. intros ->. apply Hsc. now left.
  - destruct (bl_one_only _ _ _ _ H1) as (c & bl & ->). exact Hg.
Qed.

Definition guar (v : variant) : Prop := v = Gt1 \/ v = Mig \/ v = Lgt \/ v = Gt2.

Theorem PreG_blacklist v we e w l la w' :
  guar v -> PreG w l -> ~ In sc_addr la -> blacklist_endpoint v we e w la = Ok w' -> PreG w' l.
Proof.
  intros Hv Hp Hsc E. unfold blacklist_endpoint in E.
  apply bind_ok in E. destruct E as (w1 & H1 & E).
  unfold add_users_to_blacklist in H1. apply bind_ok in H1. destruct H1 as (u1 & _ & H1). apply bind_ok in H1. destruct H1 as (u2 & _ & H1).
  pose proof (PreG_blacklist_loop e la w l w1 Hp Hsc H1) as Hp1.
  apply bind_ok in E. destruct E as (w2 & H2 & E).
  assert (Hp2 : PreG w2 l).
  { destruct Hv as [-> | [-> | [-> | ->]]].
    1,2,3: unfold clear_gt_after_blacklist_v1 in H2; apply bind_ok in H2; destruct H2 as ([[s1 rm] tg] & Hl & H2);
      inversion H2; subst w2; clear H2; destruct (clear_gt_loop_v1_only _ _ _ _ _ _ _ Hl) as [Ho Hn];
      destruct (0 <? rm);
      [ apply PreG_gt_only; [exact Hp1|exact Ho|apply Hn; apply Hp1]
      | replace (s1 <| total_guaranteed := tg |>) with (s1 <| nr_winning := nr_winning s1 |> <| total_guaranteed := tg |>) by (destruct s1; reflexivity);
        apply PreG_gt_only; [exact Hp1|exact Ho|apply Hn; apply Hp1] ].
    unfold clear_gt_after_blacklist_v2 in H2; apply bind_ok in H2; destruct H2 as ([[s1 nw] tg] & Hl & H2);
      inversion H2; subst w2; clear H2; destruct (clear_gt_loop_v2_only _ _ _ _ _ _ _ Hl) as [Ho Hn].
    apply PreG_gt_only; [exact Hp1|exact Ho|apply Hn; apply Hp1]. }
  apply bind_ok in E. destruct E as (w3 & H3 & E).
  assert (w3 = w2) by (destruct Hv as [-> | [-> | [-> | ->]]]; cbn [has_nft] in H3; inversion H3; reflexivity). subst w3.
  inversion E; subst w'; clear E.
  destruct Hv as [-> | [-> | [-> | ->]]]; try exact Hp2.
  destruct we; [|exact Hp2]. eapply PreG_ext; [| |exact Hp2]; reflexivity.
Qed.

Lemma unblacklist_loop_only : forall l s s', unblacklist_loop s l = Ok s' -> exists bl, s' = s <| blacklisted := bl |>.
Proof.
  induction l as [|a l IH]; intros s s' E; cbn [unblacklist_loop] in E.
  - inversion E; subst. exists (blacklisted s'). destruct s'; reflexivity.
  - apply bind_ok in E. destruct E as (u & _ & E). destruct (IH _ _ E) as (bl & ->). exists bl. reflexivity.
Qed.

Theorem PreG_unblacklist v e w l la w' :
  guar v -> PreG w l -> unblacklist_endpoint v e w la = Ok w' -> PreG w' l.
Proof.
  intros Hv Hp E. unfold unblacklist_endpoint in E.
  apply bind_ok in E. destruct E as (w1 & H1 & E).
  unfold remove_users_from_blacklist in H1. apply bind_ok in H1. destruct H1 as (u1 & _ & H1). apply bind_ok in H1. destruct H1 as (u2 & _ & H1).
  apply bind_ok in H1. destruct H1 as (s1 & Hl & H1). inversion H1; subst w1; clear H1.
  destruct (unblacklist_loop_only _ _ _ Hl) as (bl & ->).
  assert (Hp1 : PreG (set_st w (st w <| blacklisted := bl |>)) l).
  { eapply PreG_neutral; [| | |exact Hp]; rewrite ?st_set_st, ?bal_set_st; try reflexivity. unfold neutral. cbn. repeat split. }
  destruct Hv as [-> | [-> | [-> | ->]]]; try discriminate.
  1,2: unfold unblacklist_gt_v1 in E; apply bind_ok in E; destruct E as ([[s2 nw] tg] & Hl2 & E); inversion E; subst w'; clear E;
       destruct (unbl_gt_loop_v1_only _ _ _ _ _ _ _ Hl2) as [Ho Hn]; apply PreG_gt_only; [exact Hp1|exact Ho|apply Hn; apply Hp1].
  apply bind_ok in E. destruct E as (w2 & H2 & E). inversion E; subst w'; clear E.
  unfold unblacklist_gt_v2 in H2. apply bind_ok in H2. destruct H2 as ([[s2 nw] tg] & Hl2 & H2). inversion H2; subst w2; clear H2.
  destruct (unbl_gt_loop_v2_only _ _ _ _ _ _ _ Hl2) as [Ho Hn].
  eapply PreG_ext; [| |apply PreG_gt_only; [exact Hp1|exact Ho|apply Hn; apply Hp1]]; reflexivity.
Qed.

Section HSetupGt.
Variable H : list N -> list N.

Inductive common_call : call -> Prop :=
| cc_deposit : common_call CDeposit
| cc_confirm n : common_call (CConfirm n)
| cc_pause : common_call CPause
| cc_unpause : common_call CUnpause
| cc_conf r : common_call (CSetConf r)
| cc_ws r : common_call (CSetWs r)
| cc_claim r : common_call (CSetClaim r)
| cc_support a : common_call (CSetSupport a)
| cc_tpt a : common_call (CSetTpt a).

Ltac open_plain E w0 :=
  unfold exec in E; cbn [payable] in E; fold w0 in E;
  apply bind_ok in E; destruct E as (?u & ?Hnp & E); apply no_payment_nil in Hnp; rewrite Hnp in E;
  cbn [credit_payment bind] in E; cbn [dispatch] in E; unfold ret0 in E; mon_inv.

Theorem PreG_exec_common v e b sd w l c w' r :
  PreG w l -> common_call c -> pay_wf (pay e) -> caller e <> sc_addr ->
  exec H v e b sd w c = Ok (w', r) -> PreG w' l.
Proof.
  intros Hpre Hc Hwf Hcs E.
  set (w0 := w <| evs := [] |> <| rlog := [] |> <| locks := [] |> <| seeds := sd |>).
  assert (Hpre0 : PreG w0 l) by (eapply PreG_ext; [| |exact Hpre]; reflexivity).
  destruct Hc as [ | n | | | r0 | r0 | r0 | a | a].
  - (* deposit *)
    unfold exec in E. cbn [payable] in E. fold w0 in E. cbn [bind] in E.
    apply bind_ok in E. destruct E as (w1 & Hcr & E).
    cbn [dispatch] in E. unfold ret0 in E. mon_inv.
    match goal with Hd : deposit_launchpad_tokens _ _ _ = Ok _ |- _ => apply (deposit_iff _ _ _ _ Hwf) in Hd; destruct Hd as (_ & Hp & Hlp & ->) end.
    pose proof (credit_payment_st _ _ _ _ Hcr) as Hs1.
    pose proof (pre_tok _ _ (pg_pre _ _ Hpre0)) as Htok.
    assert (Hb1 : bal w1 sc_addr (pay_token (st w0)) 0 = bal w0 sc_addr (pay_token (st w0)) 0).
    { eapply credit_other_token; [exact Hcr|exact Hcs|]. rewrite Hp. constructor; [|constructor]. cbn. rewrite Hs1.
      intros Heq. apply Htok. symmetry. exact Heq. }
    eapply PreG_neutral; [| | |exact Hpre0].
    + rewrite st_set_st, Hs1. unfold neutral. cbn. repeat split.
    + rewrite st_set_st, Hs1. reflexivity.
    + rewrite bal_set_st. exact Hb1.
  - (* confirmation: through the launchpad-independent part of the transaction *)
    destruct Hpre as [Hp Hg].
    assert (Hex : exists l', Pre w' l' /\ l' = l /\ gt_users (st w') = gt_users (st w)).
    { pose proof (PayInv_confirm H v e b sd w n w' r (map fst l) Hwf Hcs (ps_pay _ _ (pre_sel _ _ Hp)) E) as Hpay'.
      apply (exec_confirm_iff H v e b sd w n w' r Hwf) in E. destruct E as (w1 & Hcr & Hcond & -> & _).
      pose proof (credit_payment_st _ _ _ _ Hcr) as Hs1. unfold reset_outputs in Hs1. cbn in Hs1.
      destruct Hcond as (_ & _ & _ & _ & _ & (total & Htot & Hle) & _).
      destruct Hp as [[Hop Hch Hown Hnd Hcf Hfresh Hpay Hnone] Htok Hknown].
      set (tc := confirmed (st w) (caller e) + n).
      assert (Hst : st (confirm_effect e w1 n) = st w <| confirmed := upd (confirmed (st w)) (caller e) tc |>).
      { unfold confirm_effect. rewrite st_emit, st_set_st, Hs1. reflexivity. }
      assert (Hsize : forall n0, In (caller e, n0) l -> total = n0).
      { intros n0 Hin. clear - Hown Hnd Hin Htot Hcf.
        assert (Hgen : forall f, Owned (st w) f l -> NoDup (map fst l) -> In (caller e, n0) l ->
                  Forall (fun x => confirmed (st w) (fst x) <= snd x /\ 0 < snd x) l -> total = n0).
        { clear Hown Hnd Hin Hcf. induction l as [|[x m] l IH]; intros f Ho Hndl Hi Hc; [destruct Hi|].
          inversion Ho as [|? ? ? ? Hr Ho']; subst. inversion Hndl as [|? ? Hnx Hndl']; subst.
          inversion Hc as [|? ? [_ Hm] Hc']; subst. cbn [snd] in Hm.
          destruct Hi as [Heq|Hi].
          - inversion Heq; subst. unfold get_total_number_of_tickets_for_address in Htot. rewrite Hr in Htot.
            unfold usub in Htot. destruct (N.leb_spec f (f + n0 - 1)); cbn in Htot; inversion Htot; lia.
          - eapply IH; eauto. }
        eapply Hgen; eauto. }
      exists l. split; [|split; [reflexivity|rewrite Hst; reflexivity]].
      constructor; [constructor|..]; rewrite ?Hst.
      + exact Hop.
      + eapply chain_neutral; [|exact Hch]. reflexivity.
      + eapply owned_other; [exact Hown|]. intros; reflexivity.
      + exact Hnd.
      + rewrite Forall_forall in *. intros [a n0] Hin. pose proof (Hcf _ Hin) as Hc0. cbn [fst snd] in *.
        change (confirmed (st w <| confirmed := upd (confirmed (st w)) (caller e) tc |>) a) with (upd (confirmed (st w)) (caller e) tc a).
        unfold upd. destruct (N.eqb_spec a (caller e)) as [->|Hne]; [|exact Hc0].
        split; [|apply Hc0]. rewrite <- (Hsize n0 Hin). exact Hle.
      + exact Hfresh.
      + destruct (mem (caller e) (map fst l)) eqn:Em; [exact Hpay'|].
        apply PayInv_drop in Hpay'; [exact Hpay'|].
        rewrite Hst. change (confirmed (st w <| confirmed := upd (confirmed (st w)) (caller e) tc |>) (caller e)) with (upd (confirmed (st w)) (caller e) tc (caller e)).
        rewrite upd_same. unfold tc.
        assert (Hni : ~ In (caller e) (map fst l)) by (intros Hi; apply mem_In' in Hi; congruence).
        rewrite (pi_support _ _ Hpay _ Hni).
        unfold get_total_number_of_tickets_for_address in Htot. rewrite (Hnone _ Hni) in Htot. inversion Htot; subst.
        rewrite (pi_support _ _ Hpay _ Hni) in Hle. lia.
      + exact Hnone.
      + exact Htok.
      + exact Hknown. }
    destruct Hex as (l' & Hp' & -> & Hg'). constructor; [exact Hp'|rewrite Hg'; exact Hg].
  - open_plain E w0.
    match goal with Hd : pause_endpoint _ _ = Ok _ |- _ => apply gate_pause in Hd; destruct Hd as (_ & Hs & Hb) end.
    eapply PreG_neutral; [| | |exact Hpre0]; rewrite ?Hs, ?Hb; try reflexivity. unfold neutral. cbn. repeat split.
  - open_plain E w0.
    match goal with Hd : unpause_endpoint _ _ = Ok _ |- _ => apply gate_unpause in Hd; destruct Hd as (_ & Hs & Hb) end.
    eapply PreG_neutral; [| | |exact Hpre0]; rewrite ?Hs, ?Hb; try reflexivity. unfold neutral. cbn. repeat split.
  - open_plain E w0.
    match goal with Hd : set_confirmation_period_start_round _ _ _ = Ok _ |- _ => apply gate_set_conf in Hd; destruct Hd as (_ & _ & _ & Hs & _ & Hb) end.
    eapply PreG_neutral; [| | |exact Hpre0]; rewrite ?Hs, ?Hb; try reflexivity. unfold neutral. cbn. repeat split.
  - open_plain E w0.
    match goal with Hd : set_winner_selection_start_round _ _ _ = Ok _ |- _ => apply gate_set_ws in Hd; destruct Hd as (_ & _ & _ & Hs & _ & Hb) end.
    eapply PreG_neutral; [| | |exact Hpre0]; rewrite ?Hs, ?Hb; try reflexivity. unfold neutral. cbn. repeat split.
  - open_plain E w0.
    match goal with Hd : set_claim_start_round _ _ _ = Ok _ |- _ => apply gate_set_claim in Hd; destruct Hd as (_ & _ & _ & Hs & _ & Hb) end.
    eapply PreG_neutral; [| | |exact Hpre0]; rewrite ?Hs, ?Hb; try reflexivity. unfold neutral. cbn. repeat split.
  - open_plain E w0.
    match goal with Hd : set_support_address _ _ _ = Ok _ |- _ => unfold set_support_address in Hd; mon_inv end.
    eapply PreG_neutral; [| | |exact Hpre0]; rewrite ?st_set_st, ?bal_set_st; try reflexivity. unfold neutral. cbn. repeat split.
  - open_plain E w0.
    match goal with Hd : set_launchpad_tokens_per_winning_ticket _ _ _ = Ok _ |- _ =>
      unfold set_launchpad_tokens_per_winning_ticket, try_set_tpt in Hd; mon_inv end.
    eapply PreG_neutral; [| | |exact Hpre0]; rewrite ?st_set_st, ?bal_set_st; try reflexivity. unfold neutral. cbn. repeat split.
Qed.
End HSetupGt.

(** ** deployment and reachability *)
Lemma init_base_Pre e lp tpt0 ptok price0 nrw conf ws claim add0 s0 :
  init_base e lp tpt0 ptok price0 nrw conf ws claim add0 = Ok s0 -> lp <> egld ->
  Pre (world0 s0) [] /\ gt_users s0 = [].
Proof.
  intros Hinit Hlp.
  unfold init_base, try_set_tpt, try_set_ticket_price, try_set_nr_winning in Hinit. mon_inv.
  match goal with Hx : (if negb (ptok =? egld) then _ else _) = Ok _ |- _ => rename Hx into Hif end.
  assert (Htok : ptok <> lp).
  { destruct (N.eqb_spec ptok egld) as [->|Hne]; [intros Heq; apply Hlp; symmetry; exact Heq|].
    cbn in Hif. apply require_ok' in Hif. apply negb_true_iff in Hif. apply N.eqb_neq in Hif. congruence. }
  split; [|reflexivity].
  constructor; [constructor|..].
  all: try reflexivity.
  all: try (apply (chain_nil _ 0)).
  all: try apply owned_nil.
  all: try apply NoDup_nil.
  all: try apply Forall_nil.
  all: try (split; reflexivity).
  all: try (intros a []).
  all: try exact Htok.
  constructor; [apply NoDup_nil | intros a _; reflexivity | intros [] |];
    cbn; unfold paysum; cbn; unfold init_bal;
    replace ((1 <=? sc_addr) && (sc_addr <=? 24)) with false by (vm_compute; reflexivity); lia.
Qed.

Lemma deploy_PreG v e lp tpt0 ptok price0 nrw conf ws claim x s :
  guar v -> deploy v e lp tpt0 ptok price0 nrw conf ws claim x = Ok s -> lp <> egld -> PreG (world0 s) [].
Proof.
  intros Hv E Hlp. unfold deploy in E.
  assert (Hs : exists s0, init_base e lp tpt0 ptok price0 nrw conf ws claim false = Ok s0 /\
                          neutral s0 s /\ gt_users s = gt_users s0).
  { destruct Hv as [-> | [-> | [-> | ->]]]; cbn [has_nft is_v1 has_lock has_extra negb] in E; mon_inv;
      repeat match goal with Hl : lock_init _ _ _ _ _ = Ok _ |- _ => unfold lock_init in Hl; mon_inv end;
      eexists; (split; [eassumption|]); split; try reflexivity; unfold neutral; cbn; repeat split. }
  clear E. destruct Hs as (s0 & Hinit & Hneu & Hg).
  destruct (init_base_Pre _ _ _ _ _ _ _ _ _ _ _ Hinit Hlp) as [Hp Hg0].
  constructor; [|cbn; rewrite Hg, Hg0; constructor].
  apply (Pre_neutral (world0 s0) (world0 s) []); [exact Hneu | reflexivity | exact Hp].
Qed.

Section HReachGt.
Variable H : list N -> list N.

Inductive setup_reach_gt (v : variant) : world -> Prop :=
| sg_deploy e lp tpt0 ptok price0 nrw conf ws claim x s :
    deploy v e lp tpt0 ptok price0 nrw conf ws claim x = Ok s -> lp <> egld -> setup_reach_gt v (world0 s)
| sg_common w e b sd c w' r :
    setup_reach_gt v w -> common_call c -> pay_wf (pay e) -> caller e <> sc_addr ->
    exec H v e b sd w c = Ok (w', r) -> setup_reach_gt v w'
| sg_add_v1 w e b sd lx w' r :
    setup_reach_gt v w -> Forall (fun x => 0 < snd x) (v1_sizes lx) -> ~ In sc_addr (map fst (v1_sizes lx)) ->
    exec H v e b sd w (CAddTicketsV1 lx) = Ok (w', r) -> setup_reach_gt v w'
| sg_add_v2 w e b sd lx w' r :
    setup_reach_gt v w -> ~ In sc_addr (map fst (v2_sizes lx)) ->
    exec H v e b sd w (CAddTicketsV2 lx) = Ok (w', r) -> setup_reach_gt v w'
| sg_blacklist w e b sd la w' r :
    setup_reach_gt v w -> ~ In sc_addr la ->
    exec H v e b sd w (CBlacklist la) = Ok (w', r) -> setup_reach_gt v w'
| sg_refund w e b sd la w' r :
    setup_reach_gt v w -> ~ In sc_addr la ->
    exec H v e b sd w (CRefund la) = Ok (w', r) -> setup_reach_gt v w'
| sg_unblacklist w e b sd la w' r :
    setup_reach_gt v w ->
    exec H v e b sd w (CUnblacklist la) = Ok (w', r) -> setup_reach_gt v w'
| sg_sched1 w e b sd a0 b0 c0 d0 p0 w' r :
    setup_reach_gt v w ->
    exec H v e b sd w (CSetSchedule1 a0 b0 c0 d0 p0) = Ok (w', r) -> setup_reach_gt v w'
| sg_sched2 w e b sd ls w' r :
    setup_reach_gt v w ->
    exec H v e b sd w (CSetSchedule2 ls) = Ok (w', r) -> setup_reach_gt v w'.

Theorem setup_reach_gt_PreG v w : guar v -> setup_reach_gt v w -> exists l, PreG w l.
Proof.
  intros Hv. induction 1 as [e lp tpt0 ptok price0 nrw conf ws claim x s Hd Hlp
                            | w e b sd c w' r _ IH Hc Hwf Hcs E
                            | w e b sd lx w' r _ IH Hpos Hsc E
                            | w e b sd lx w' r _ IH Hsc E
                            | w e b sd la w' r _ IH Hsc E
                            | w e b sd la w' r _ IH Hsc E
                            | w e b sd la w' r _ IH E
                            | w e b sd a0 b0 c0 d0 p0 w' r _ IH E
                            | w e b sd ls w' r _ IH E].
  - exists []. eapply deploy_PreG; eauto.
  - destruct IH as [l Hl]. exists l. eapply PreG_exec_common; eauto.
  - destruct IH as [l Hl]. exists (l ++ v1_sizes lx).
    set (w0 := w <| evs := [] |> <| rlog := [] |> <| locks := [] |> <| seeds := sd |>).
    assert (Hpre0 : PreG w0 l) by (eapply PreG_ext; [| |exact Hl]; reflexivity).
    unfold exec in E. cbn [payable] in E. fold w0 in E.
    apply bind_ok in E. destruct E as (u & Hnp & E). apply no_payment_nil in Hnp. rewrite Hnp in E.
    cbn [credit_payment bind] in E. cbn [dispatch] in E.
    destruct (is_v1 v); [|discriminate]. unfold ret0 in E. mon_inv.
    eapply PreG_add_tickets_v1; eauto.
  - destruct IH as [l Hl]. exists (l ++ v2_sizes lx).
    set (w0 := w <| evs := [] |> <| rlog := [] |> <| locks := [] |> <| seeds := sd |>).
    assert (Hpre0 : PreG w0 l) by (eapply PreG_ext; [| |exact Hl]; reflexivity).
    unfold exec in E. cbn [payable] in E. fold w0 in E.
    apply bind_ok in E. destruct E as (u & Hnp & E). apply no_payment_nil in Hnp. rewrite Hnp in E.
    cbn [credit_payment bind] in E. cbn [dispatch] in E.
    destruct v; try discriminate. unfold ret0 in E. mon_inv.
    eapply PreG_add_tickets_v2; eauto.
  - destruct IH as [l Hl]. exists l.
    set (w0 := w <| evs := [] |> <| rlog := [] |> <| locks := [] |> <| seeds := sd |>).
    assert (Hpre0 : PreG w0 l) by (eapply PreG_ext; [| |exact Hl]; reflexivity).
    unfold exec in E. cbn [payable] in E. fold w0 in E.
    apply bind_ok in E. destruct E as (u & Hnp & E). apply no_payment_nil in Hnp. rewrite Hnp in E.
    cbn [credit_payment bind] in E. cbn [dispatch] in E. unfold ret0 in E. mon_inv.
    eapply PreG_blacklist; eauto.
  - destruct IH as [l Hl]. exists l.
    set (w0 := w <| evs := [] |> <| rlog := [] |> <| locks := [] |> <| seeds := sd |>).
    assert (Hpre0 : PreG w0 l) by (eapply PreG_ext; [| |exact Hl]; reflexivity).
    unfold exec in E. cbn [payable] in E. fold w0 in E.
    apply bind_ok in E. destruct E as (u & Hnp & E). apply no_payment_nil in Hnp. rewrite Hnp in E.
    cbn [credit_payment bind] in E. cbn [dispatch] in E.
    destruct v; try discriminate. unfold ret0 in E. mon_inv.
    eapply PreG_blacklist; eauto.
  - destruct IH as [l Hl]. exists l.
    set (w0 := w <| evs := [] |> <| rlog := [] |> <| locks := [] |> <| seeds := sd |>).
    assert (Hpre0 : PreG w0 l) by (eapply PreG_ext; [| |exact Hl]; reflexivity).
    unfold exec in E. cbn [payable] in E. fold w0 in E.
    apply bind_ok in E. destruct E as (u & Hnp & E). apply no_payment_nil in Hnp. rewrite Hnp in E.
    cbn [credit_payment bind] in E. cbn [dispatch] in E.
    destruct (has_unblacklist v); [|discriminate]. unfold ret0 in E. mon_inv.
    eapply PreG_unblacklist; eauto.
  - destruct IH as [l Hl]. exists l.
    set (w0 := w <| evs := [] |> <| rlog := [] |> <| locks := [] |> <| seeds := sd |>).
    assert (Hpre0 : PreG w0 l) by (eapply PreG_ext; [| |exact Hl]; reflexivity).
    unfold exec in E. cbn [payable] in E. fold w0 in E.
    apply bind_ok in E. destruct E as (u & Hnp & E). apply no_payment_nil in Hnp. rewrite Hnp in E.
    cbn [credit_payment bind] in E. cbn [dispatch] in E.
    destruct v; try discriminate. unfold ret0 in E. mon_inv.
    match goal with Hd : set_unlock_schedule_v1 _ _ _ _ _ _ _ = Ok _ |- _ => apply set_unlock_schedule_v1_ok in Hd; destruct Hd as (_ & _ & _ & _ & Hs & Hb) end.
    eapply PreG_neutral; [| | |exact Hpre0]; rewrite ?Hs, ?Hb; try reflexivity. unfold neutral. cbn. repeat split.
  - destruct IH as [l Hl]. exists l.
    set (w0 := w <| evs := [] |> <| rlog := [] |> <| locks := [] |> <| seeds := sd |>).
    assert (Hpre0 : PreG w0 l) by (eapply PreG_ext; [| |exact Hl]; reflexivity).
    unfold exec in E. cbn [payable] in E. fold w0 in E.
    apply bind_ok in E. destruct E as (u & Hnp & E). apply no_payment_nil in Hnp. rewrite Hnp in E.
    cbn [credit_payment bind] in E. cbn [dispatch] in E.
    destruct v; try discriminate. unfold ret0 in E. mon_inv.
    match goal with Hd : set_unlock_schedule_v2 _ _ _ = Ok _ |- _ => unfold set_unlock_schedule_v2 in Hd; mon_inv end.
    eapply PreG_neutral; [| | |exact Hpre0]; rewrite ?st_emit, ?st_set_st, ?bal_emit, ?bal_set_st; try reflexivity. unfold neutral. cbn. repeat split.
Qed.

(** from deployment through the three stages *)
Theorem deployed_pipeline_gt v v2 w0 lf wf ef bf w1 ls ws es bs w2 sd rest ld wd ed bd w3 :
  guar v -> setup_reach_gt v w0 ->
  after_interrupted filter_tickets lf w0 = Some wf -> filter_tickets ef bf wf = Ok (w1, 0) ->
  seeds w1 = sd :: rest ->
  after_interrupted (select_winners H) ls w1 = Some ws -> select_winners H es bs ws = Ok (w2, 0) ->
  after_interrupted (distribute_guaranteed_tickets H v2) ld w2 = Some wd ->
  distribute_guaranteed_tickets H v2 ed bd wd = Ok (w3, 0) ->
  exists l : list (N * N),
    ClaimInv w3 (map fst l) /\
    dist_result v2 (st w2) (st w3) /\
    (forall u, In u (gt_users (st w2)) -> owed v2 (st w2) u <= own_winning (st w2) (st w3) u) /\
    (forall t, status (st w2) t = true -> status (st w3) t = true).
Proof.
  intros Hv Hr Haf Ef Hs Has Es Had Ed.
  destruct (setup_reach_gt_PreG v w0 Hv Hr) as [l [[Hsel _ _] Hg]]. exists l.
  exact (pipeline_gt H v2 l w0 lf wf ef bf w1 ls ws es bs w2 sd rest ld wd ed bd w3 Hsel Hg Haf Ef Hs Has Es Had Ed).
Qed.
End HReachGt.

(** ** non-vacuity: the set-up part of the gt2 history of [Examples] *)
Definition gt2_confirmed : world :=
  run_sha Gt2 gt2_0
    [ (mkenv 1 1 0 [], 100%nat, [], CAddTicketsV2 [(2, 3, [(1, 2)]); (3, 3, [(1, 1)]); (4, 4, [])]);
      (mkenv 1 2 0 [(1, 0, 300)], 100%nat, [], CDeposit);
      (mkenv 2 10 0 [(0, 0, 3000)], 100%nat, [], CConfirm 3);
      (mkenv 3 11 0 [(0, 0, 2000)], 100%nat, [], CConfirm 2);
      (mkenv 4 11 0 [(0, 0, 4000)], 100%nat, [], CConfirm 4) ].

Lemma step_common w e b sd c :
  setup_reach_gt sha256 Gt2 w -> common_call c -> pay_wf (pay e) -> caller e <> sc_addr ->
  (exists w' r, exec sha256 Gt2 e b sd w c = Ok (w', r)) ->
  setup_reach_gt sha256 Gt2 (step_sha Gt2 w (e, b, sd, c)).
Proof.
  intros Hr Hc Hwf Hcs (w' & r & E). unfold step_sha, exec_sha. rewrite E. eapply sg_common; eauto.
Qed.

Example gt2_confirmed_reachable : setup_reach_gt sha256 Gt2 gt2_confirmed.
Proof.
  unfold gt2_confirmed, run_sha. cbn [fold_left].
  assert (H0 : setup_reach_gt sha256 Gt2 gt2_0).
  { unfold gt2_0. destruct (deploy Gt2 (mkenv 1 0 0 []) 1 100 0 1000 3 10 20 30 x0) as [s|k] eqn:Ed; [|vm_compute in Ed; discriminate].
    eapply sg_deploy; [exact Ed|]. vm_compute. discriminate. }
  assert (H1 : setup_reach_gt sha256 Gt2 (step_sha Gt2 gt2_0
            (mkenv 1 1 0 [], 100%nat, [], CAddTicketsV2 [(2, 3, [(1, 2)]); (3, 3, [(1, 1)]); (4, 4, [])]))).
  { unfold step_sha, exec_sha.
    destruct (exec sha256 Gt2 (mkenv 1 1 0 []) 100 [] gt2_0 (CAddTicketsV2 [(2, 3, [(1, 2)]); (3, 3, [(1, 1)]); (4, 4, [])])) as [[w' r]|k] eqn:E;
      [|vm_compute in E; discriminate].
    eapply sg_add_v2; [exact H0 | | exact E]. vm_compute. intros [Hx|[Hx|[Hx|Hx]]]; try discriminate Hx; exact Hx. }
  repeat (apply step_common;
          [ | first [ apply cc_deposit | apply cc_confirm ]
            | cbn; first [ right; left; eexists; reflexivity | right; right; split; [discriminate | repeat constructor; cbn; discriminate] ]
            | vm_compute; discriminate
            | eexists _, _; vm_compute; reflexivity ]).
  exact H1.
Qed.

(** a set-up history with a blacklisted and restored guarantee holder *)
Definition gt2_bl_history : world :=
  run_sha Gt2 gt2_0
    [ (mkenv 1 1 0 [], 100%nat, [], CAddTicketsV2 [(2, 3, [(1, 2)]); (3, 3, [(1, 1)]); (4, 4, [])]);
      (mkenv 1 2 0 [(1, 0, 300)], 100%nat, [], CDeposit);
      (mkenv 1 3 0 [], 100%nat, [], CBlacklist [3]);
      (mkenv 1 4 0 [], 100%nat, [], CUnblacklist [3]);
      (mkenv 1 5 0 [], 100%nat, [], CRefund [4]) ].

Example gt2_bl_history_reachable :
  setup_reach_gt sha256 Gt2 gt2_bl_history /\
  (gt_users (st gt2_bl_history), nr_winning (st gt2_bl_history), total_guaranteed (st gt2_bl_history),
   blacklisted (st gt2_bl_history) 3, blacklisted (st gt2_bl_history) 4) = ([2; 3], 1, 2, false, true).
Proof.
  split; [|vm_compute; reflexivity].
  unfold gt2_bl_history, run_sha. cbn [fold_left].
  assert (H0 : setup_reach_gt sha256 Gt2 gt2_0).
  { unfold gt2_0. destruct (deploy Gt2 (mkenv 1 0 0 []) 1 100 0 1000 3 10 20 30 x0) as [s|k] eqn:Ed; [|vm_compute in Ed; discriminate].
    eapply sg_deploy; [exact Ed|]. vm_compute. discriminate. }
  assert (H1 : setup_reach_gt sha256 Gt2 (step_sha Gt2 gt2_0
            (mkenv 1 1 0 [], 100%nat, [], CAddTicketsV2 [(2, 3, [(1, 2)]); (3, 3, [(1, 1)]); (4, 4, [])]))).
  { unfold step_sha, exec_sha.
    destruct (exec sha256 Gt2 (mkenv 1 1 0 []) 100 [] gt2_0 (CAddTicketsV2 [(2, 3, [(1, 2)]); (3, 3, [(1, 1)]); (4, 4, [])])) as [[w' r]|k] eqn:E;
      [|vm_compute in E; discriminate].
    eapply sg_add_v2; [exact H0 | | exact E]. vm_compute. intros [Hx|[Hx|[Hx|Hx]]]; try discriminate Hx; exact Hx. }
  match goal with |- setup_reach_gt _ _ (step_sha _ ?w (?e, ?b, ?sd, CRefund ?l)) =>
    unfold step_sha at 1, exec_sha at 1; destruct (exec sha256 Gt2 e b sd w (CRefund l)) as [[w' r]|k] eqn:E; [|vm_compute in E; discriminate];
    eapply sg_refund; [| |exact E]; [|vm_compute; intros [Hx|Hx]; [discriminate Hx|exact Hx]] end.
  match goal with |- setup_reach_gt _ _ (step_sha _ ?w (?e, ?b, ?sd, CUnblacklist ?l)) =>
    unfold step_sha at 1, exec_sha at 1; destruct (exec sha256 Gt2 e b sd w (CUnblacklist l)) as [[w2' r2]|k] eqn:E2; [|vm_compute in E2; discriminate];
    eapply sg_unblacklist; [|exact E2] end.
  match goal with |- setup_reach_gt _ _ (step_sha _ ?w (?e, ?b, ?sd, CBlacklist ?l)) =>
    unfold step_sha at 1, exec_sha at 1; destruct (exec sha256 Gt2 e b sd w (CBlacklist l)) as [[w3' r3]|k] eqn:E3; [|vm_compute in E3; discriminate];
    eapply sg_blacklist; [| |exact E3]; [|vm_compute; intros [Hx|Hx]; [discriminate Hx|exact Hx]] end.
  apply step_common;
          [ | apply cc_deposit
            | cbn; right; right; split; [discriminate | repeat constructor; cbn; discriminate]
            | vm_compute; discriminate
            | eexists _, _; vm_compute; reflexivity ].
  exact H1.
Qed.
