(** * C08: filterTickets compacts the ticket space to exactly the confirmed tickets. *)
From LP Require Import Proofs.Tactics Proofs.Loop Proofs.Resume.
Open Scope N_scope.

(** The allocation as the loop sees it: the chain of batches starting at ticket id [f] and ending at
    [last]; every batch non-empty. *)
Inductive Chain (s : state) (last : N) : N -> list (N * N) -> Prop :=
| chain_nil : Chain s last (last + 1) []
| chain_cons f a n l :
    f <= last -> batch s f = Some (a, n) -> 0 < n -> Chain s last (f + n) l ->
    Chain s last f ((a, n) :: l).

(** what the loop does to one batch *)
Definition compact_one (s : state) (f r a n : N) : state :=
  let c := confirmed s a in
  if c =? 0 then s <| range := upd (range s) a None |> <| batch := upd (batch s) f None |>
  else if (0 <? r) || (c <? n) then
    let s1 := s <| batch := upd (batch s) f None |> in
    let s2 := s1 <| range := upd (range s1) a (Some (f - r, f - r + c - 1)) |> in
    s2 <| batch := upd (batch s2) (f - r) (Some (a, c)) |>
  else s.

Fixpoint compact (l : list (N * N)) (s : state) (f r : N) : state * N * N :=
  match l with
  | [] => (s, f, r)
  | (a, n) :: l' => compact l' (compact_one s f r a n) (f + n) (r + (n - confirmed s a))
  end.

Lemma filter_body_one last s f r a n :
  f <> last + 1 -> batch s f = Some (a, n) -> confirmed s a <= n -> r < f ->
  filter_body last (s, f, r) = Ok (compact_one s f r a n, f + n, r + (n - confirmed s a), true).
Proof.
  intros Hf Hb Hc Hr. unfold filter_body, compact_one.
  destruct (N.eqb_spec f (last + 1)); [contradiction|]. rewrite Hb.
  destruct (N.eqb_spec (confirmed s a) 0) as [E0|E0].
  - cbn [bind]. unfold usub. destruct (N.leb_spec (confirmed s a) n); [|lia]. reflexivity.
  - destruct ((0 <? r) || (confirmed s a <? n)).
    + unfold usub. destruct (N.leb_spec r f); [|lia]. cbn [bind].
      destruct (N.leb_spec 1 (f - r + confirmed s a)); [|lia]. cbn [bind].
      destruct (N.leb_spec (confirmed s a) n); [|lia]. cbn [bind].
      replace (f - r + confirmed s a - 1) with (f - r + confirmed s a - 1) by lia. reflexivity.
    + cbn [bind]. unfold usub. destruct (N.leb_spec (confirmed s a) n); [|lia]. reflexivity.
Qed.

(** [compact_one] leaves the rest of the chain and all confirmations alone *)
Lemma compact_one_confirmed s f r a n : confirmed (compact_one s f r a n) = confirmed s.
Proof.
  unfold compact_one. destruct (confirmed s a =? 0); [reflexivity|].
  destruct ((0 <? r) || (confirmed s a <? n)); reflexivity.
Qed.

Lemma compact_one_batch_later s f r a n g :
  f < g -> batch (compact_one s f r a n) g = batch s g.
Proof.
  intros Hg. unfold compact_one. destruct (confirmed s a =? 0).
  - cbn. apply upd_other. lia.
  - destruct ((0 <? r) || (confirmed s a <? n)); [|reflexivity].
    cbn. rewrite !upd_other by lia. reflexivity.
Qed.

Lemma chain_later s s' last : forall f l,
  Chain s last f l -> (forall g, f <= g -> batch s' g = batch s g) -> Chain s' last f l.
Proof.
  intros f l Hc. induction Hc as [|f a n l Hf Hb Hn Hc IH]; intros Hs; [constructor|].
  econstructor; eauto.
  - rewrite Hs by lia. exact Hb.
  - apply IH. intros g Hg. apply Hs. lia.
Qed.

(** the completed loop equals [compact] on the chain *)
Lemma filter_loop_compact last : forall b l s f r s' f' r' b',
  Chain s last f l -> r < f ->
  Forall (fun x => confirmed s (fst x) <= snd x) l ->
  run_while b (filter_body last) (s, f, r) = Ok (s', f', r', true, b') ->
  (s', f', r') = compact l s f r /\ f' = last + 1.
Proof.
  induction b as [|b IH]; intros l s f r s' f' r' b' Hc Hr Hconf E; rewrite run_while_eq in E.
  - destruct Hc as [|f a n l Hf Hb Hn Hc].
    + unfold filter_body in E. rewrite N.eqb_refl in E. inversion E; subst. split; reflexivity.
    + inversion Hconf as [|? ? Hca Hconf']; subst. cbn [fst snd] in Hca.
      rewrite (filter_body_one last s f r a n) in E by (auto; lia). discriminate.
  - destruct Hc as [|f a n l Hf Hb Hn Hc].
    + unfold filter_body in E. rewrite N.eqb_refl in E. inversion E; subst. split; reflexivity.
    + inversion Hconf as [|? ? Hca Hconf']; subst. cbn [fst snd] in Hca.
      rewrite (filter_body_one last s f r a n) in E by (auto; lia).
      cbn [compact]. apply (IH l (compact_one s f r a n) (f + n) (r + (n - confirmed s a)) s' f' r' b').
      * eapply chain_later; [exact Hc|]. intros g Hg. apply compact_one_batch_later. lia.
      * lia.
      * rewrite compact_one_confirmed. exact Hconf'.
      * exact E.
Qed.

(** ** What [compact] computes: new ranges are the prefix sums of the confirmed counts *)
Definition confs (s : state) (l : list (N * N)) : list N := map (fun x => confirmed s (fst x)) l.

(** range an address gets: [None] if nothing confirmed, else the block after [before] tickets *)
Definition new_range (before c : N) : option (N * N) :=
  if c =? 0 then None else Some (before + 1, before + c).

Lemma compact_one_range_self s f r a n :
  confirmed s a <= n -> r < f ->
  range s a = Some (f, f + n - 1) ->
  range (compact_one s f r a n) a = new_range (f - r - 1) (confirmed s a).
Proof.
  intros Hc Hr Hrg. unfold compact_one, new_range.
  destruct (N.eqb_spec (confirmed s a) 0) as [E0|E0].
  - cbn. apply upd_same.
  - destruct (N.ltb_spec 0 r) as [Hr0|Hr0]; cbn [orb].
    + cbn. rewrite upd_same. f_equal. f_equal; lia.
    + destruct (N.ltb_spec (confirmed s a) n).
      * cbn. rewrite upd_same. f_equal. f_equal; lia.
      * rewrite Hrg. f_equal. f_equal; lia.
Qed.

Lemma compact_one_range_other s f r a n x :
  x <> a -> range (compact_one s f r a n) x = range s x.
Proof.
  intros Hx. unfold compact_one. destruct (confirmed s a =? 0).
  - cbn. now apply upd_other.
  - destruct ((0 <? r) || (confirmed s a <? n)); [|reflexivity]. cbn. now apply upd_other.
Qed.

(** allocation facts about the chain: distinct owners, each owning exactly its batch *)
Inductive Owned (s : state) : N -> list (N * N) -> Prop :=
| owned_nil f : Owned s f []
| owned_cons f a n l : range s a = Some (f, f + n - 1) -> Owned s (f + n) l -> Owned s f ((a, n) :: l).

Lemma owned_other s s' : forall f l,
  Owned s f l -> (forall x, In x (map fst l) -> range s' x = range s x) -> Owned s' f l.
Proof.
  intros f l Ho. induction Ho as [|f a n l Hr Ho IH]; intros Hs; constructor.
  - rewrite Hs by (left; reflexivity). exact Hr.
  - apply IH. intros x Hx. apply Hs. now right.
Qed.

Theorem compact_spec : forall l s f r,
  NoDup (map fst l) -> Owned s f l -> r < f ->
  Forall (fun x => confirmed s (fst x) <= snd x /\ 0 < snd x) l ->
  let '(s', f', r') := compact l s f r in
  f' = f + sumN (map snd l) /\
  f' - r' = f - r + sumN (confs s l) /\ r' < f' /\
  confirmed s' = confirmed s /\
  (forall x, ~ In x (map fst l) -> range s' x = range s x) /\
  (forall pre a n post, l = pre ++ (a, n) :: post ->
     range s' a = new_range (f - r - 1 + sumN (confs s pre)) (confirmed s a)) /\
  nr_winning s' = nr_winning s /\ last_ticket_id s' = last_ticket_id s /\ status s' = status s /\
  pos2id s' = pos2id s.
Proof.
  induction l as [|[a n] l IH]; intros s f r Hnd Ho Hr Hc.
  - cbn. repeat split; auto; try lia.
    intros pre a n post E. destruct pre; discriminate.
  - cbn [compact]. inversion Hnd as [|? ? Hnotin Hnd']; subst.
    inversion Ho as [|? ? ? ? Hrg Ho']; subst.
    inversion Hc as [|? ? [Hca Hn] Hc']; subst. cbn [fst snd] in Hca, Hn.
    specialize (IH (compact_one s f r a n) (f + n) (r + (n - confirmed s a)) Hnd').
    assert (Ho2 : Owned (compact_one s f r a n) (f + n) l).
    { eapply owned_other; [exact Ho'|]. intros x Hx. apply compact_one_range_other.
      intros ->. contradiction. }
    assert (Hc2 : Forall (fun x => confirmed (compact_one s f r a n) (fst x) <= snd x /\ 0 < snd x) l)
      by (rewrite compact_one_confirmed; exact Hc').
    specialize (IH Ho2 ltac:(lia) Hc2).
    destruct (compact l (compact_one s f r a n) (f + n) (r + (n - confirmed s a))) as [[s' f'] r'].
    destruct IH as (Hf' & Hd & Hlt & Hconf & Hother & Hpre & Hnw & Hlast & Hst & Hp2).
    rewrite compact_one_confirmed in *.
    assert (Hcs : confs (compact_one s f r a n) l = confs s l).
    { unfold confs. now rewrite compact_one_confirmed. }
    rewrite Hcs in *.
    split. { cbn [map snd]. rewrite sumN_cons. lia. }
    split. { unfold confs in *. cbn [map fst]. rewrite sumN_cons, Hd, N.add_assoc. f_equal. lia. }
    split; [lia|]. split; [exact Hconf|].
    split.
    { intros x Hx. rewrite Hother by (intros Hin; apply Hx; now right).
      apply compact_one_range_other. intros ->. apply Hx. now left. }
    split.
    { intros pre a0 n0 post E. destruct pre as [|p pre].
      - inversion E; subst. unfold confs. cbn [map]. rewrite sumN_nil, N.add_0_r.
        rewrite Hother by assumption. apply compact_one_range_self; auto.
      - inversion E; subst. rewrite (Hpre pre a0 n0 post eq_refl).
        f_equal. unfold confs. rewrite compact_one_confirmed. cbn [map fst]. rewrite sumN_cons. lia. }
    unfold compact_one in Hnw, Hlast, Hst, Hp2.
    destruct (confirmed s a =? 0); [cbn in *; auto|].
    destruct ((0 <? r) || (confirmed s a <? n)); cbn in *; auto.
Qed.

(** ** The completed endpoint *)
Theorem filter_tickets_completed e b w w' l :
  op (st w) = OpNone ->
  Chain (st w) (last_ticket_id (st w)) 1 l -> Owned (st w) 1 l -> NoDup (map fst l) ->
  Forall (fun x => confirmed (st w) (fst x) <= snd x /\ 0 < snd x) l ->
  filter_tickets e b w = Ok (w', 0) ->
  let s := st w in
  let total := sumN (confs s l) in
  last_ticket_id s = sumN (map snd l) /\
  last_ticket_id (st w') = total /\
  nr_winning (st w') = N.min (nr_winning s) total /\
  fl_filtered (st w') = true /\ op (st w') = OpNone /\
  (forall pre a n post, l = pre ++ (a, n) :: post ->
     range (st w') a = new_range (sumN (confs s pre)) (confirmed s a)) /\
  (forall x, ~ In x (map fst l) -> range (st w') x = range s x) /\
  confirmed (st w') = confirmed s /\ status (st w') = status s /\ pos2id (st w') = pos2id s /\
  bal w' = bal w.
Proof.
  intros Hop Hch Hown Hnd Hc. unfold filter_tickets. intros E.
  apply bind_ok in E. destruct E as (u1 & _ & E).
  apply bind_ok in E. destruct E as (u2 & _ & E).
  apply bind_ok in E. destruct E as (u3 & _ & E).
  unfold load_filter_tickets_operation in E. rewrite Hop in E. cbn [bind] in E.
  apply bind_ok in E. destruct E as ([[[[s1 f1] r1] done] bb] & Hrun & E).
  destruct done; [|inversion E].
  apply bind_ok in E. destruct E as (nl & Hnl & E). inversion E; subst w'; clear E.
  set (s0 := st w <| op := OpNone |> <| fl_started := (if 1 =? 1 then true else fl_started (st w)) |>) in *.
  assert (Hch0 : Chain s0 (last_ticket_id (st w)) 1 l).
  { eapply chain_later; [exact Hch|]. intros; reflexivity. }
  assert (Hown0 : Owned s0 1 l) by (eapply owned_other; [exact Hown|]; intros; reflexivity).
  assert (Hc0 : Forall (fun x => confirmed s0 (fst x) <= snd x) l).
  { eapply Forall_impl; [|exact Hc]. intros x [H1 _]. exact H1. }
  assert (H01 : 0 < 1) by lia.
  destruct (filter_loop_compact _ _ _ _ _ _ _ _ _ _ Hch0 H01 Hc0 Hrun) as [Hcomp Hf1].
  pose proof (compact_spec l s0 1 0 Hnd Hown0 H01 Hc) as Hspec.
  rewrite <- Hcomp in Hspec.
  destruct Hspec as (Hf' & Hd & Hlt & Hconf & Hother & Hpre & Hnw & Hlast & Hst & Hp2).
  apply usub_ok in Hnl. destruct Hnl as [Hle ->].
  change (confs s0 l) with (confs (st w) l) in *.
  cbn zeta. rewrite st_emit, st_set_st. cbn.
  assert (Hsum : last_ticket_id (st w) = sumN (map snd l)) by lia.
  assert (Hnew : last_ticket_id (st w) - r1 = sumN (confs (st w) l)) by lia.
  rewrite Hnew, Hnw. change (nr_winning s0) with (nr_winning (st w)).
  split; [exact Hsum|]. split; [reflexivity|].
  split.
  { destruct (N.ltb_spec (sumN (confs (st w) l)) (nr_winning (st w))); lia. }
  split; [reflexivity|].
  split.
  { pose proof (filter_loop_frame _ _ _ _ _ _ _ _ _ _ Hrun) as [Hfr _].
    destruct Hfr as (_ & _ & _ & _ & _ & _ & _ & _ & _ & Hopp & _). exact Hopp. }
  split.
  { intros pre a n post El. rewrite (Hpre pre a n post El).
    change (confs s0 pre) with (confs (st w) pre). change (confirmed s0 a) with (confirmed (st w) a).
    f_equal; lia. }
  split; [exact Hother|]. auto.
Qed.

Corollary filter_cap e b w w' l :
  op (st w) = OpNone ->
  Chain (st w) (last_ticket_id (st w)) 1 l -> Owned (st w) 1 l -> NoDup (map fst l) ->
  Forall (fun x => confirmed (st w) (fst x) <= snd x /\ 0 < snd x) l ->
  filter_tickets e b w = Ok (w', 0) ->
  nr_winning (st w') = N.min (nr_winning (st w)) (sumN (confs (st w) l)) /\
  last_ticket_id (st w') = sumN (confs (st w) l).
Proof.
  intros H1 H2 H3 H4 H5 H6.
  destruct (filter_tickets_completed e b w w' l H1 H2 H3 H4 H5 H6) as (_ & A & B & _). auto.
Qed.
