(** * C19: pausing changes only the pause flag; unpausing restores the state. *)
From LP Require Import Proofs.Tactics Proofs.Gates Proofs.Permissions.
Open Scope N_scope.

Lemma pause_unpause_state e e' w w1 w2 :
  paused (st w) = false -> pause_endpoint e w = Ok w1 -> unpause_endpoint e' w1 = Ok w2 ->
  st w2 = st w /\ bal w2 = bal w.
Proof.
  intros Hp H1 H2. apply gate_pause in H1. apply gate_unpause in H2.
  destruct H1 as (_ & S1 & B1). destruct H2 as (_ & S2 & B2).
  rewrite S2, S1, B2, B1. split; [|reflexivity].
  destruct (st w); cbn in *. subst. reflexivity.
Qed.

(** endpoints outside the gated set do not read the pause flag: for those that only depend on the
    state through other fields the result is the same with the flag set.  Stated for the
    bookkeeping endpoints that matter during a pause (blacklist refunds, owner withdrawal). *)
Lemma claim_ticket_payment_ignores_pause e w f :
  claim_ticket_payment e (set_st w (st w <| paused := f |>)) =
  match claim_ticket_payment e w with
  | Ok w' => Ok (set_st w' (st w' <| paused := f |>))
  | Err k => Err k
  end.
Proof.
  unfold claim_ticket_payment. rewrite st_set_st.
  change (get_launch_stage e (st w <| paused := f |>)) with (get_launch_stage e (st w)).
  unfold require_stage.
  change (get_launch_stage e (st w <| paused := f |>)) with (get_launch_stage e (st w)).
  destruct (require (stage_eqb (get_launch_stage e (st w)) Claim)) as [[]|]; [|reflexivity]. cbn [bind].
  change (claimable_payment (st w <| paused := f |>)) with (claimable_payment (st w)).
  destruct (0 <? claimable_payment (st w)).
  - unfold transfer. cbn. destruct (_ <=? _); [|reflexivity]. cbn.
    unfold bsub. destruct (_ <=? _); [|reflexivity]. cbn.
    destruct (0 <? _); [|destruct w as [s ? ? ? ? ?]; destruct s; reflexivity].
    destruct (_ <=? _); [|reflexivity]. destruct w as [s ? ? ? ? ?]; destruct s; reflexivity.
  - cbn. unfold bsub. destruct (_ <=? _); [|reflexivity]. cbn.
    destruct (0 <? _); [|destruct w as [s ? ? ? ? ?]; destruct s; reflexivity].
    unfold transfer. cbn. destruct (_ <=? _); [|reflexivity]. destruct w as [s ? ? ? ? ?]; destruct s; reflexivity.
Qed.
