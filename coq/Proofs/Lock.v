(** * C16: the lock split. *)
From LP Require Import Proofs.Tactics Proofs.LedgerBase.
Open Scope N_scope.

Lemma lock_amount_le s e amt : lock_pct s <= MAX_PERCENTAGE -> lock_amount s e amt <= amt.
Proof.
  unfold lock_amount, MAX_PERCENTAGE. intros Hp. destruct (epoch e <? unlock_epoch s); [|lia]. nia.
Qed.

Lemma lock_amount_late s e amt : unlock_epoch s <= epoch e -> lock_amount s e amt = 0.
Proof. unfold lock_amount. intros H. destruct (N.ltb_spec (epoch e) (unlock_epoch s)); [lia|reflexivity]. Qed.

Lemma lock_amount_early s e amt :
  epoch e < unlock_epoch s -> lock_amount s e amt = amt * lock_pct s / MAX_PERCENTAGE.
Proof. unfold lock_amount. intros H. destruct (N.ltb_spec (epoch e) (unlock_epoch s)); [reflexivity|lia]. Qed.

Lemma lock_amount_full s e amt :
  epoch e < unlock_epoch s -> lock_pct s = MAX_PERCENTAGE -> lock_amount s e amt = amt.
Proof.
  intros H Hp. rewrite lock_amount_early by assumption. rewrite Hp. unfold MAX_PERCENTAGE.
  now rewrite N.div_mul.
Qed.

(** what [send_locked_launchpad_tokens] does with an entitlement [amt] *)
Theorem send_locked_spec e w dest amt w' :
  lock_pct (st w) <= MAX_PERCENTAGE ->
  send_locked_launchpad_tokens e w dest amt = Ok w' ->
  let s := st w in
  let la := lock_amount s e amt in
  la + (amt - la) = amt /\
  st w' = s /\
  locks w' = (if 0 <? la then [{| lk_epoch := unlock_epoch s; lk_dest := dest; lk_tok := lp_token s;
                                  lk_nonce := 0; lk_amt := la |}] else []) ++ locks w /\
  bal w' = (let b1 := if 0 <? la then bal_after (bal w) sc_addr (lock_sc s) (lp_token s) 0 la else bal w in
            if 0 <? amt - la then bal_after b1 sc_addr dest (lp_token s) 0 (amt - la) else b1).
Proof.
  intros Hp. unfold send_locked_launchpad_tokens. cbn zeta. intros E.
  pose proof (lock_amount_le (st w) e amt Hp) as Hle.
  split; [lia|].
  destruct (N.ltb_spec 0 (lock_amount (st w) e amt)) as [Hla|Hla].
  - mon_inv.
    match goal with H : transfer w _ _ _ _ _ = Ok _ |- _ => apply transfer_ok in H; destruct H as [_ ->] end.
    destruct (N.ltb_spec 0 (amt - lock_amount (st w) e amt)).
    + apply transfer_ok in E. destruct E as [_ ->]. cbn. auto.
    + inversion E; subst. cbn. auto.
  - cbn [bind] in E.
    destruct (N.ltb_spec 0 (amt - lock_amount (st w) e amt)).
    + apply transfer_ok in E. destruct E as [_ ->]. cbn. auto.
    + inversion E; subst. cbn. auto.
Qed.

(** deployment of the locked variants accepts only a percentage in (0, 100%], a future unlock epoch
    and a contract address *)
Theorem lock_init_ok e s pct unlock a s' :
  lock_init e s pct unlock a = Ok s' ->
  0 < pct /\ pct <= MAX_PERCENTAGE /\ epoch e < unlock /\ is_sc a = true /\ a <> 32 /\
  lock_pct s' = pct /\ unlock_epoch s' = unlock /\ lock_sc s' = a.
Proof.
  unfold lock_init. intros E. mon_inv.
  repeat match goal with H : (_ && _) = true |- _ => apply andb_true_iff in H; destruct H end.
  repeat match goal with H : negb _ = true |- _ => apply negb_true_iff in H end.
  repeat match goal with H : (_ <? _) = true |- _ => apply N.ltb_lt in H end.
  repeat match goal with H : (_ <=? _) = true |- _ => apply N.leb_le in H end.
  repeat match goal with H : (_ =? _) = false |- _ => apply N.eqb_neq in H end.
  cbn. repeat split; auto.
Qed.
