(** * The contract's sparse Fisher-Yates ([shuffle_single_ticket]) refines the textbook algorithm. *)
From Coq Require Import Permutation.
From LP Require Import Proofs.Tactics Proofs.Loop Proofs.FisherYates.
Open Scope N_scope.

(** ** ranges of positions *)
Lemma range_ids_length i n : length (range_ids i n) = N.to_nat (n + 1 - i).
Proof. unfold range_ids. now rewrite map_length, seq_length. Qed.

Lemma range_ids_nth i n k d : (k < N.to_nat (n + 1 - i))%nat -> nth k (range_ids i n) d = i + N.of_nat k.
Proof.
  intros Hk. unfold range_ids.
  rewrite (nth_indep _ d (i + N.of_nat 0)) by (now rewrite map_length, seq_length).
  rewrite (map_nth (fun j => i + N.of_nat j) (seq 0 _) 0%nat k). now rewrite seq_nth.
Qed.

Lemma range_ids_cons i n : i <= n -> range_ids i n = i :: range_ids (i + 1) n.
Proof.
  intros Hi. unfold range_ids.
  replace (N.to_nat (n + 1 - i)) with (S (N.to_nat (n + 1 - (i + 1)))) by lia.
  cbn [seq map]. f_equal; [lia|]. rewrite <- seq_shift, map_map. apply map_ext. intros a. lia.
Qed.

Lemma range_ids_nil i n : n < i -> range_ids i n = [].
Proof. intros H. unfold range_ids. replace (N.to_nat (n + 1 - i)) with O by lia. reflexivity. Qed.

Lemma range_ids_In i n p : In p (range_ids i n) <-> i <= p <= n.
Proof.
  unfold range_ids. rewrite in_map_iff. split.
  - intros (k & <- & Hk). apply in_seq in Hk. lia.
  - intros [H1 H2]. exists (N.to_nat (p - i)). split; [lia|]. apply in_seq. lia.
Qed.

Lemma range_ids_NoDup i n : NoDup (range_ids i n).
Proof.
  unfold range_ids. apply FinFun.Injective_map_NoDup; [|apply seq_NoDup].
  intros a b H. lia.
Qed.

(** ** the abstract array behind the sparse representation *)
Definition id_at (s : state) (p : N) : N := get_ticket_id_from_pos s p.
Definition arr_of (s : state) (i n : N) : list N := map (id_at s) (range_ids i n).

(** one step of [shuffle_single_ticket] on the state alone, with raw word [x] *)
Definition sstep (s : state) (i n x : N) : state :=
  let j := if n + 1 <=? i then i else i + x mod (n + 1 - i) in
  let win := id_at s j in
  let s1 := s <| status := upd (status s) win true |> in
  s1 <| pos2id := upd (pos2id s1) j (id_at s1 i) |>.

Lemma shuffle_single_ticket_sstep H w r cur last :
  let '(x, r1, w1) := next_usize H w r in
  shuffle_single_ticket H w r cur last = (r1, set_st w1 (sstep (st w) cur last x)).
Proof.
  unfold shuffle_single_ticket, next_usize_in_range, next_usize, sstep, id_at.
  destruct w as [s ? ? ? ? ?]. reflexivity.
Qed.

(** the invariant: winners so far together with the array of the remaining positions are a
    permutation of 1..n, and exactly the winners are marked *)
Record SInv (n : N) (s : state) (i : N) (wins : list N) : Prop := {
  si_lo : 1 <= i;
  si_hi : i <= n + 1;
  si_perm : Permutation (wins ++ arr_of s i n) (range_ids 1 n);
  si_status : forall t, status s t = true <-> In t wins
}.

Lemma arr_of_cons s i n : i <= n -> arr_of s i n = id_at s i :: arr_of s (i + 1) n.
Proof. intros H. unfold arr_of. now rewrite range_ids_cons. Qed.

Lemma arr_of_length s i n : length (arr_of s i n) = N.to_nat (n + 1 - i).
Proof. unfold arr_of. now rewrite map_length, range_ids_length. Qed.

Lemma arr_of_nth s i n k : (k < N.to_nat (n + 1 - i))%nat -> nth k (arr_of s i n) 0 = id_at s (i + N.of_nat k).
Proof.
  intros Hk. unfold arr_of.
  rewrite (nth_indep _ 0 (id_at s 0)) by (now rewrite map_length, range_ids_length).
  rewrite map_nth. now rewrite range_ids_nth.
Qed.

Lemma SInv_ids n s i wins p : SInv n s i wins -> i <= p <= n -> 1 <= id_at s p <= n.
Proof.
  intros Hi Hp. apply (range_ids_In 1 n). eapply Permutation_in; [apply (si_perm _ _ _ _ Hi)|].
  apply in_or_app. right. unfold arr_of. apply in_map. now apply range_ids_In.
Qed.

(** mapping an updated lookup over a range is [set_nth] *)
Lemma map_upd_range (f : N -> N) (j v : N) : forall k i n,
  (k < N.to_nat (n + 1 - i))%nat -> j = i + N.of_nat k ->
  map (fun p => if p =? j then v else f p) (range_ids i n) = set_nth k v (map f (range_ids i n)).
Proof.
  induction k as [|k IH]; intros i n Hk Hj.
  - rewrite range_ids_cons by lia. cbn [map set_nth]. replace (i =? j) with true by (symmetry; apply N.eqb_eq; lia).
    f_equal. apply map_ext_in. intros p Hp. apply range_ids_In in Hp.
    destruct (N.eqb_spec p j); [lia|reflexivity].
  - rewrite range_ids_cons by lia. cbn [map set_nth].
    destruct (N.eqb_spec i j); [lia|]. f_equal. apply IH; lia.
Qed.

Lemma map_noupd_range (f : N -> N) (j v : N) i n :
  j < i -> map (fun p => if p =? j then v else f p) (range_ids i n) = map f (range_ids i n).
Proof.
  intros Hj. apply map_ext_in. intros p Hp. apply range_ids_In in Hp.
  destruct (N.eqb_spec p j); [lia|reflexivity].
Qed.

(** one step: the array evolves as the textbook [rest], the winner is the textbook [pick] *)
Lemma sstep_refines n s i wins x :
  SInv n s i wins -> i <= n ->
  let arr := arr_of s i n in
  arr_of (sstep s i n x) (i + 1) n = rest arr x /\
  SInv n (sstep s i n x) (i + 1) (wins ++ [pick arr x]) /\
  status (sstep s i n x) = upd (status s) (pick arr x) true.
Proof.
  intros Hinv Hi. cbn zeta.
  pose proof (arr_of_length s i n) as Hlen.
  assert (Hoff : offset (arr_of s i n) x = N.to_nat (x mod (n + 1 - i))).
  { unfold offset. rewrite Hlen. f_equal. f_equal. lia. }
  assert (Hofflt : (offset (arr_of s i n) x < N.to_nat (n + 1 - i))%nat).
  { rewrite Hoff. assert (x mod (n + 1 - i) < n + 1 - i) by (apply N.mod_lt; lia). lia. }
  set (k := offset (arr_of s i n) x) in *.
  set (j := i + N.of_nat k).
  assert (Hj : (if n + 1 <=? i then i else i + x mod (n + 1 - i)) = j).
  { destruct (N.leb_spec (n + 1) i); [lia|]. unfold j. rewrite Hoff. lia. }
  assert (Hpick : pick (arr_of s i n) x = id_at s j).
  { unfold pick. fold k. now rewrite arr_of_nth. }
  assert (Hidi : 1 <= id_at s i <= n) by (eapply SInv_ids; eauto; lia).
  (* the state after the step *)
  assert (Hst : status (sstep s i n x) = upd (status s) (id_at s j) true).
  { unfold sstep. rewrite Hj. reflexivity. }
  assert (Hid' : forall p, id_at (sstep s i n x) p = if p =? j then id_at s i else id_at s p).
  { intros p. unfold sstep. rewrite Hj. unfold id_at, get_ticket_id_from_pos. cbn.
    fold (get_ticket_id_from_pos s i). fold (id_at s i).
    unfold upd. destruct (N.eqb_spec p j) as [->|Hne].
    - destruct (N.eqb_spec (id_at s i) 0); [lia|reflexivity].
    - reflexivity. }
  assert (Harr : arr_of (sstep s i n x) (i + 1) n = rest (arr_of s i n) x).
  { unfold arr_of at 1. rewrite (map_ext _ _ Hid').
    unfold rest. fold k. rewrite (arr_of_cons s i n Hi). cbn [hd].
    destruct k as [|k'] eqn:Ek.
    - cbn [set_nth tl]. apply map_noupd_range. unfold j. lia.
    - cbn [set_nth tl]. unfold arr_of. apply map_upd_range; [lia | unfold j; lia]. }
  split; [exact Harr|]. split; [|now rewrite Hpick].
  constructor.
  - lia.
  - lia.
  - rewrite Harr, <- app_assoc. cbn [app].
    eapply perm_trans; [|apply (si_perm _ _ _ _ Hinv)].
    apply Permutation_app_head. apply pick_rest_perm.
    rewrite (arr_of_cons s i n Hi). discriminate.
  - intros t. rewrite Hst, Hpick. unfold upd. rewrite in_app_iff. cbn [In].
    destruct (N.eqb_spec t (id_at s j)) as [->|Hne].
    + split; auto.
    + rewrite (si_status _ _ _ _ Hinv t). split; [auto|]. intros [H|[H|[]]]; [assumption|congruence].
Qed.

(** ** the whole loop on raw words *)
Fixpoint sloop (k : nat) (s : state) (i n : N) (words : list N) : state :=
  match k, words with
  | S k', x :: ws => sloop k' (sstep s i n x) (i + 1) n ws
  | _, _ => s
  end.

Theorem sloop_refines : forall k s i n wins words,
  SInv n s i wins -> (N.of_nat k <= n + 1 - i) -> (k <= length words)%nat ->
  let (w2, r) := fy k (arr_of s i n) words in
  SInv n (sloop k s i n words) (i + N.of_nat k) (wins ++ w2) /\
  arr_of (sloop k s i n words) (i + N.of_nat k) n = r.
Proof.
  induction k as [|k IH]; intros s i n wins words Hinv Hk Hw.
  - cbn [fy sloop]. rewrite app_nil_r, N.add_0_r. auto.
  - destruct words as [|x ws]; [cbn in Hw; lia|]. cbn [fy sloop].
    assert (Hi : i <= n) by lia.
    destruct (sstep_refines n s i wins x Hinv Hi) as (Harr & Hinv' & _).
    specialize (IH (sstep s i n x) (i + 1) n (wins ++ [pick (arr_of s i n) x]) ws Hinv').
    rewrite Harr in IH.
    destruct (fy k (rest (arr_of s i n) x) ws) as [w2 r].
    destruct IH as [Hi2 Ha2]; [lia | cbn in Hw; lia |].
    replace (i + N.of_nat (S k)) with (i + 1 + N.of_nat k) by lia.
    rewrite <- app_assoc in Hi2. cbn [app] in Hi2. auto.
Qed.

(** a state in which no selection has happened yet: identity positions, nothing marked *)
Definition fresh_shuffle (s : state) : Prop :=
  (forall t, status s t = false) /\ (forall p, pos2id s p = 0).

Lemma fresh_SInv s n : fresh_shuffle s -> SInv n s 1 [] /\ arr_of s 1 n = range_ids 1 n.
Proof.
  intros [Hs Hp].
  assert (Ha : arr_of s 1 n = range_ids 1 n).
  { unfold arr_of. rewrite <- (map_id (range_ids 1 n)) at 2. apply map_ext. intros p.
    unfold id_at, get_ticket_id_from_pos. now rewrite Hp. }
  split; [|exact Ha]. constructor; try lia.
  - rewrite Ha. apply Permutation_refl.
  - intros t. rewrite Hs. split; [discriminate | intros []].
Qed.

(** Winners of a complete base selection of [k <= n] tickets on raw words [words], from a fresh
    state: exactly the textbook Fisher-Yates winners on 1..n. *)
Theorem sloop_fresh k s n words :
  fresh_shuffle s -> N.of_nat k <= n -> (k <= length words)%nat ->
  let wins := fst (fy k (range_ids 1 n) words) in
  (forall t, status (sloop k s 1 n words) t = true <-> In t wins) /\
  NoDup wins /\ length wins = k /\ (forall t, In t wins -> 1 <= t <= n).
Proof.
  intros Hf Hk Hw. cbn zeta.
  destruct (fresh_SInv s n Hf) as [Hinv Ha].
  pose proof (sloop_refines k s 1 n [] words Hinv ltac:(lia) Hw) as Hr. rewrite Ha in Hr.
  pose proof (fy_winners_nodup k (range_ids 1 n) words (range_ids_NoDup 1 n)) as Hnd.
  rewrite range_ids_length in Hnd. specialize (Hnd ltac:(lia) Hw).
  destruct (fy k (range_ids 1 n) words) as [w2 r]. cbn [fst] in *. cbn [app] in Hr.
  destruct Hr as [Hi2 _]. destruct Hnd as (Hn1 & Hn2 & Hn3).
  split; [apply (si_status _ _ _ _ Hi2)|]. split; [assumption|]. split; [assumption|].
  intros t Ht. apply (range_ids_In 1 n). now apply Hn2.
Qed.
