(** * Tie between the regenerated tables (Gen/Generated.v, rewritten from /repo's sources on every
    run) and the tables the model and its theorems were written against (Gen/Expected.v).
    Each lemma is closed by [reflexivity] on closed terms: a changed attribute, endpoint or constant
    in the sources makes the corresponding lemma fail to compile. *)
From Coq Require Import NArith List String.
From LP Require Import Gen.Generated Gen.Expected Model.Exec.
Import ListNotations.
Open Scope N_scope.

Lemma endpoints_base : gen_endpoints_base = exp_endpoints_base. Proof. reflexivity. Qed.
Lemma endpoints_lock : gen_endpoints_lock = exp_endpoints_lock. Proof. reflexivity. Qed.
Lemma endpoints_nft : gen_endpoints_nft = exp_endpoints_nft. Proof. reflexivity. Qed.
Lemma endpoints_gt1 : gen_endpoints_gt1 = exp_endpoints_gt1. Proof. reflexivity. Qed.
Lemma endpoints_mig : gen_endpoints_mig = exp_endpoints_mig. Proof. reflexivity. Qed.
Lemma endpoints_lgt : gen_endpoints_lgt = exp_endpoints_lgt. Proof. reflexivity. Qed.
Lemma endpoints_ngt : gen_endpoints_ngt = exp_endpoints_ngt. Proof. reflexivity. Qed.
Lemma endpoints_gt2 : gen_endpoints_gt2 = exp_endpoints_gt2. Proof. reflexivity. Qed.

(** constants used by the model *)
Lemma const_first_ticket_id : gen_launchpad_common__FIRST_TICKET_ID = Some 1. Proof. reflexivity. Qed.
Lemma const_usize_bytes : gen_launchpad_common__USIZE_BYTES = Some 4. Proof. reflexivity. Qed.
Lemma const_hash_len : gen_launchpad_common__HASH_LEN = Some 32. Proof. reflexivity. Qed.
Lemma const_staking_gt1 :
  gen_launchpad_guaranteed_tickets__STAKING_GUARANTEED_TICKETS_NO = Some STAKING_GUARANTEED_TICKETS_NO.
Proof. reflexivity. Qed.
Lemma const_migration_gt1 :
  gen_launchpad_guaranteed_tickets__MIGRATION_GUARANTEED_TICKETS_NO = Some MIGRATION_GUARANTEED_TICKETS_NO.
Proof. reflexivity. Qed.
Lemma const_staking_mig :
  gen_launchpad_migration_guaranteed_tickets__STAKING_GUARANTEED_TICKETS_NO = Some STAKING_GUARANTEED_TICKETS_NO.
Proof. reflexivity. Qed.
Lemma const_migration_mig :
  gen_launchpad_migration_guaranteed_tickets__MIGRATION_GUARANTEED_TICKETS_NO = Some MIGRATION_GUARANTEED_TICKETS_NO.
Proof. reflexivity. Qed.
Lemma const_max_pct_gt1 : gen_launchpad_guaranteed_tickets__MAX_PERCENTAGE = Some MAX_PERCENTAGE.
Proof. reflexivity. Qed.
Lemma const_max_pct_gt2 : gen_launchpad_guaranteed_tickets_v2__MAX_PERCENTAGE = Some MAX_PERCENTAGE.
Proof. reflexivity. Qed.
Lemma const_max_pct_lock : gen_launchpad_locked_tokens__MAX_PERCENTAGE = Some MAX_PERCENTAGE.
Proof. reflexivity. Qed.
Lemma const_max_milestones :
  gen_launchpad_guaranteed_tickets_v2__MAX_UNLOCK_MILESTONES_ENTRIES = Some MAX_UNLOCK_MILESTONES_ENTRIES.
Proof. reflexivity. Qed.
Lemma const_max_round_diff :
  gen_launchpad_guaranteed_tickets_v2__MAX_RELEASE_ROUND_DIFF = Some MAX_RELEASE_ROUND_DIFF.
Proof. reflexivity. Qed.
Lemma const_max_allowance :
  gen_launchpad_guaranteed_tickets_v2__MAX_TICKETS_ALLOWANCE = Some MAX_TICKETS_ALLOWANCE.
Proof. reflexivity. Qed.
Lemma const_max_entries :
  gen_launchpad_guaranteed_tickets_v2__MAX_GUARANTEED_TICKETS_ENTRIES = Some MAX_GUARANTEED_TICKETS_ENTRIES.
Proof. reflexivity. Qed.
Lemma const_nft_amount : gen_launchpad_with_nft__NFT_AMOUNT = Some 1. Proof. reflexivity. Qed.
Lemma const_vec_start_nft : gen_launchpad_with_nft__VEC_MAPPER_START_INDEX = Some 1. Proof. reflexivity. Qed.
Lemma const_vec_start_gt1 : gen_launchpad_guaranteed_tickets__VEC_MAPPER_START_INDEX = Some 1. Proof. reflexivity. Qed.
Lemma const_vec_start_gt2 : gen_launchpad_guaranteed_tickets_v2__VEC_MAPPER_START_INDEX = Some 1. Proof. reflexivity. Qed.

(** deployment arithmetic: every wasm crate is released with [overflow-checks = false] *)
Lemma overflow_checks_all :
  [gen_overflow_checks_base; gen_overflow_checks_lock; gen_overflow_checks_nft; gen_overflow_checks_gt1;
   gen_overflow_checks_mig; gen_overflow_checks_lgt; gen_overflow_checks_ngt; gen_overflow_checks_gt2]
  = repeat (Some false) 8.
Proof. reflexivity. Qed.
