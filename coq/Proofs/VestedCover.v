(** * C02, claim period of the vested contracts (guaranteed-tickets, guaranteed-tickets-v2):
    the launchpad-token balance is exactly
      tokens-per-ticket x unsettled winning tickets
      + what settled winners have not received yet (vested or not)
      + the owner's not-yet-withdrawn surplus (+ a constant [x] of foreign tokens, 0 after an exact deposit),
    through any order of vesting claims and owner withdrawals; no claim and no withdrawal can fail
    for lack of tokens; when everybody is paid in full and the owner has withdrawn, [x] is left. *)
From LP Require Import Proofs.Tactics Proofs.LedgerBase Proofs.Shuffle Proofs.Frames Proofs.Settle Proofs.Ledger
  Proofs.ClaimLedger Proofs.Vesting.
Open Scope N_scope.

Definition outstanding (s : state) (a : N) : N := total_claimable s a - claimed_balance s a.

(** what [claimTicketPayment] of these contracts will send to the owner in launchpad tokens *)
Definition surplus (s : state) : N :=
  total_deposited s - claimable_payment s / price s * tpt s.

Definition sched_inv (v2 : bool) (s : state) : Prop :=
  if v2 then sumN (map snd (schedule_v2 s)) = MAX_PERCENTAGE
  else match sched1 s with
       | Some sch => sched1_ok sch /\
                     (let '(_, initial, _, _, _) := sch in
                      initial = MAX_PERCENTAGE -> forall a, claimed_balance s a = 0 \/ claimed_balance s a = total_claimable s a)
       | None => True
       end.

Record VInv (v2 : bool) (w : world) (A : list N) (x : N) : Prop := {
  vi_bal : bal w sc_addr (lp_token (st w)) 0 =
           tpt (st w) * nr_winning (st w) + sumN (map (outstanding (st w)) A) + surplus (st w) + x;
  vi_le : forall a, claimed_balance (st w) a <= total_claimable (st w) a;
  vi_fresh : forall a, claimed (st w) a = false -> total_claimable (st w) a = 0;
  vi_support : forall a, ~ In a A -> total_claimable (st w) a = 0;
  vi_sched : sched_inv v2 (st w)
}.

(** at the start of the claim period: exact deposit, nothing paid *)
Lemma VInv_start v2 w A :
  sched_inv v2 (st w) ->
  (forall a, total_claimable (st w) a = 0) -> (forall a, claimed_balance (st w) a = 0) ->
  0 < price (st w) -> claimable_payment (st w) = price (st w) * nr_winning (st w) ->
  tpt (st w) * nr_winning (st w) <= total_deposited (st w) ->
  bal w sc_addr (lp_token (st w)) 0 = total_deposited (st w) ->
  VInv v2 w A 0.
Proof.
  intros Hs Ht Hc Hp Hcp Hle Hb. constructor; auto.
  - rewrite Hb. unfold surplus. rewrite Hcp.
    replace (price (st w) * nr_winning (st w) / price (st w)) with (nr_winning (st w)) by (rewrite N.mul_comm, N.div_mul; lia).
    rewrite (sumN_map_ext (outstanding (st w)) (fun _ => 0) A).
    + assert (sumN (map (fun _ : N => 0) A) = 0) as ->.
      { clear. induction A as [|y A IH]; cbn [map]; rewrite ?sumN_cons; [reflexivity|]. lia. }
      nia.
    + intros a _. unfold outstanding. rewrite Ht. reflexivity.
  - intros a. rewrite Ht, Hc. lia.
Qed.

(** ** the settlement part of a first claim *)
Lemma settle_total_deposited e w w' wins :
  settle_tickets e w = Ok (w', wins) ->
  total_deposited (st w') = total_deposited (st w) /\ sched1 (st w') = sched1 (st w) /\ sched2 (st w') = sched2 (st w).
Proof.
  intros E. unfold settle_tickets in E.
  apply bind_ok in E. destruct E as ([f l] & _ & E).
  apply bind_ok in E. destruct E as (s3 & Hs3 & E).
  apply bind_ok in E. destruct E as (tr & _ & E).
  apply bind_ok in E. destruct E as (w1 & Hrf & E). inversion E; subst w1; clear E.
  apply refund_spec in Hrf. rewrite st_set_st in Hrf.
  assert (Hc3 : total_deposited s3 = total_deposited (st w) /\ sched1 s3 = sched1 (st w) /\ sched2 s3 = sched2 (st w)).
  { match type of Hs3 with context [0 <? ?x] => destruct (0 <? x) end;
      [apply bind_ok in Hs3; destruct Hs3 as (xx & _ & Hs3)|]; inversion Hs3; subst s3; auto. }
  destruct Hrf as [(_ & ->)|(_ & _ & ->)]; rewrite ?st_emit, ?st_set_st; cbn; exact Hc3.
Qed.

Lemma sched_inv_ext v2 s s' :
  sched1 s' = sched1 s -> sched2 s' = sched2 s ->
  total_claimable s' = total_claimable s -> claimed_balance s' = claimed_balance s ->
  sched_inv v2 s -> sched_inv v2 s'.
Proof.
  intros H1 H2 Ht Hc. unfold sched_inv, schedule_v2. rewrite H1, H2, Ht, Hc. auto.
Qed.

Lemma surplus_ext s s' :
  total_deposited s' = total_deposited s -> claimable_payment s' = claimable_payment s ->
  price s' = price s -> tpt s' = tpt s -> surplus s' = surplus s.
Proof. unfold surplus. intros -> -> -> ->. reflexivity. Qed.

Theorem results_VInv v2 e w A x :
  ClaimInv w A -> VInv v2 w A x -> pay_token (st w) <> lp_token (st w) -> caller e <> sc_addr ->
  claimed (st w) (caller e) = false ->
  forall w1, compute_launchpad_results e w = Ok w1 ->
  ClaimInv w1 A /\ VInv v2 w1 A x /\ claimed (st w1) (caller e) = true /\
  total_claimable (st w1) (caller e) = winning_of (st w) (caller e) * tpt (st w) /\
  claimed_balance (st w1) (caller e) = 0 /\
  lp_token (st w1) = lp_token (st w) /\
  (forall y, bal w1 y (lp_token (st w)) 0 = bal w y (lp_token (st w)) 0) /\
  (forall y, y <> caller e -> total_claimable (st w1) y = total_claimable (st w) y) /\
  claimed_balance (st w1) = claimed_balance (st w) /\
  paused (st w1) = paused (st w).
Proof.
  intros Hi Hv Htok Hne Hcl w1 E. unfold compute_launchpad_results in E.
  apply bind_ok in E. destruct E as (u & _ & E).
  apply bind_ok in E. destruct E as ([w0 wins] & Es & E).
  assert (Hr : range (st w) (caller e) <> None) by (pose proof (settle_spec _ _ _ _ Es) as Hs; cbn zeta in Hs; tauto).
  destruct (ClaimInv_settle e w A Hi Hr) as (w0' & wins' & Es' & Hw & Hi0 & Hb0 & _ & _ & Hcp0).
  rewrite Es in Es'. injection Es' as <- <-.
  pose proof (settle_spec e w w0 wins Es) as Hs. cbn zeta in Hs.
  destruct Hs as (_ & _ & _ & _ & _ & Hcl0 & Hn0 & Hwle & Hoth & Htf & Htc & Hcb & _ & _).
  destruct (settle_total_deposited _ _ _ _ Es) as (Htd & Hs1 & Hs2).
  destruct (tf_lp _ _ Htf) as [Hlp Htpt]. destruct (tf_price' _ _ Htf) as [Hpr Hpt].
  assert (Hpau : paused (st w0) = paused (st w)) by (unfold tf, terms_of in Htf; inversion Htf; auto).
  destruct Hv as [Hvb Hvle Hvf Hvs Hvsch].
  assert (Htc0 : total_claimable (st w) (caller e) = 0) by (apply Hvf; exact Hcl).
  assert (Hcb0 : claimed_balance (st w) (caller e) = 0) by (specialize (Hvle (caller e)); lia).
  assert (HinA : In (caller e) A).
  { destruct (in_dec N.eq_dec (caller e) A) as [Hin|Hn]; [exact Hin|]. destruct (ci_support _ _ Hi _ Hn) as [_ Hx]. contradiction. }
  assert (Hwins : wins <= nr_winning (st w)).
  { rewrite (ci_win _ _ Hi), Hw. apply sumN_map_ge. exact HinA. }
  assert (Hlpbal : forall y, bal w0 y (lp_token (st w)) 0 = bal w y (lp_token (st w)) 0).
  { intros y. rewrite Hb0. destruct (0 <? due (st w) (caller e)); [|reflexivity].
    apply bal_after_other; intros Hx; inversion Hx; congruence. }
  assert (Hout : forall a, a <> caller e -> outstanding (st w0) a = outstanding (st w) a)
    by (intros a _; unfold outstanding; rewrite Htc, Hcb; reflexivity).
  assert (Hout0 : outstanding (st w) (caller e) = 0) by (unfold outstanding; lia).
  assert (Hsur : surplus (st w0) = surplus (st w)) by (apply surplus_ext; auto).
  destruct (N.ltb_spec 0 wins) as [Hp|Hz].
  - inversion E; subst w1; clear E. rewrite !st_set_st. cbn [bal set_st].
    split; [eapply ClaimInv_same_ledger; [exact Hi0|reflexivity..|cbn; lia]|].
    split; [|cbn; rewrite ?upd_same; repeat split; auto; try (rewrite Htpt, Hw; reflexivity); try congruence;
              intros y Hy; rewrite upd_other by exact Hy; rewrite Htc; reflexivity].
    set (s1 := st w0 <| total_claimable := upd (total_claimable (st w0)) (caller e) (wins * tpt (st w0)) |>).
    assert (Ho1 : forall a, In a A -> a <> caller e -> outstanding s1 a = outstanding (st w) a).
    { intros a _ Ha. unfold outstanding, s1. cbn. rewrite upd_other by exact Ha. rewrite Htc, Hcb. reflexivity. }
    assert (Ho1c : outstanding s1 (caller e) = wins * tpt (st w)).
    { unfold outstanding, s1. cbn. rewrite upd_same, Hcb, Hcb0, Htpt. lia. }
    constructor.
    + change (bal (set_st w0 s1)) with (bal w0). change (st (set_st w0 s1)) with s1.
      change (lp_token s1) with (lp_token (st w0)). change (tpt s1) with (tpt (st w0)).
      change (nr_winning s1) with (nr_winning (st w0)). change (surplus s1) with (surplus (st w0)).
      rewrite Hlp, Htpt, Hn0, Hlpbal, Hvb, Hsur.
      pose proof (sumN_map_upd (outstanding (st w)) (outstanding s1) A (caller e) (ci_nodup _ _ Hi) HinA Ho1) as Hsum.
      rewrite Ho1c, Hout0 in Hsum. nia.
    + intros a. change (st (set_st w0 s1)) with s1. unfold s1. cbn. destruct (N.eq_dec a (caller e)) as [->|Hna].
      * rewrite upd_same, Hcb, Hcb0. lia.
      * rewrite upd_other by exact Hna. rewrite Htc, Hcb. apply Hvle.
    + intros a. change (st (set_st w0 s1)) with s1. unfold s1. cbn. intros Ha.
      destruct (N.eq_dec a (caller e)) as [->|Hna]; [congruence|].
      rewrite upd_other by exact Hna. rewrite Htc. apply Hvf. destruct (Hoth a Hna) as (_ & _ & <-). exact Ha.
    + intros a Ha. change (st (set_st w0 s1)) with s1. unfold s1. cbn.
      assert (a <> caller e) by (intros ->; contradiction). rewrite upd_other by assumption. rewrite Htc. apply Hvs. exact Ha.
    + change (st (set_st w0 s1)) with s1. unfold sched_inv, schedule_v2 in *. unfold s1. cbn. rewrite Hs1, Hs2.
      destruct v2; [exact Hvsch|]. destruct (sched1 (st w)) as [[[[[start initial] times] pct] period]|]; [|exact I].
      destruct Hvsch as [Hok Hfull]. split; [exact Hok|]. intros Hm a. specialize (Hfull Hm a).
      destruct (N.eq_dec a (caller e)) as [->|Hna]; [left; rewrite Hcb; exact Hcb0|].
      rewrite upd_other by exact Hna. rewrite Htc, Hcb. exact Hfull.
  - inversion E; subst w1; clear E. assert (Hw0 : wins = 0) by lia. rewrite Hw0 in Hn0, Hw.
    split; [exact Hi0|].
    split; [|rewrite Htc, Hcb, <- Hw, Htc0; repeat split; auto; try lia; intros y _; reflexivity].
    constructor.
    + rewrite Hlp, Htpt, Hn0, Hlpbal, Hvb, Hsur, N.sub_0_r.
      rewrite (sumN_map_ext (outstanding (st w0)) (outstanding (st w)) A); [reflexivity|].
      intros a _. unfold outstanding. rewrite Htc, Hcb. reflexivity.
    + intros a. rewrite Htc, Hcb. apply Hvle.
    + intros a Ha. rewrite Htc. destruct (N.eq_dec a (caller e)) as [->|Hna]; [exact Htc0|].
      apply Hvf. destruct (Hoth a Hna) as (_ & _ & <-). exact Ha.
    + intros a Ha. rewrite Htc. apply Hvs. exact Ha.
    + eapply sched_inv_ext; [| | | |exact Hvsch]; auto.
Qed.

(** ** the payment part of a claim: never more than what is outstanding *)
Lemma claimable_le v2 e s a amt :
  sched_inv v2 s -> (forall y, claimed_balance s y <= total_claimable s y) ->
  (if v2 then compute_claimable_v2 e s a else compute_claimable_v1 e s a) = Ok amt ->
  amt <= outstanding s a /\
  sched_inv v2 (s <| claimed_balance := upd (claimed_balance s) a (claimed_balance s a + amt) |>).
Proof.
  intros Hs Hle E. unfold outstanding. destruct v2.
  - split.
    + apply compute_claimable_v2_spec in E. destruct E as [[_ ->]|(_ & _ & _ & Hsum)]; [lia|].
      pose proof (vested_v2_bounded s (total_claimable s a) (round e) Hs). lia.
    + exact Hs.
  - unfold sched_inv in *.
    match goal with |- context [sched1 ?t] => change (sched1 t) with (sched1 s) end. revert Hs.
    destruct (sched1 s) as [sch|] eqn:Hsch; intros Hs.
    + pose proof (compute_claimable_v1_spec e s a amt sch Hsch E) as Hspec.
      destruct sch as [[[[start initial] times] pct] period]. destruct Hs as [Hok Hfull].
      destruct Hspec as [[_ ->]|(Hpos & Hlt & Hc)].
      * split; [lia|]. split; [exact Hok|]. intros Hm y. cbn. specialize (Hfull Hm y).
        unfold upd. destruct (y =? a) eqn:Ey; [apply N.eqb_eq in Ey; subst y; rewrite N.add_0_r|]; exact Hfull.
      * destruct Hc as [[_ ->]|[(_ & Hm & ->)|(_ & Hnm & Hsum)]].
        -- split; [lia|]. split; [exact Hok|]. intros Hm y. cbn. specialize (Hfull Hm y).
           unfold upd. destruct (y =? a) eqn:Ey; [apply N.eqb_eq in Ey; subst y; rewrite N.add_0_r|]; exact Hfull.
        -- assert (Hz : claimed_balance s a = 0) by (destruct (Hfull Hm a); lia).
           split; [lia|]. split; [exact Hok|]. intros _ y. cbn. specialize (Hfull Hm y).
           unfold upd. destruct (y =? a) eqn:Ey; [apply N.eqb_eq in Ey; subst y; right; lia|exact Hfull].
        -- pose proof (vested_v1_bounded (start, initial, times, pct, period) (total_claimable s a) (round e) Hok).
           split; [lia|]. split; [exact Hok|]. intros Hm. contradiction.
    + split; [|exact I]. unfold compute_claimable_v1 in E. rewrite Hsch in E.
      destruct (total_claimable s a =? 0); [inversion E; lia|]. mon_inv. lia.
Qed.

Definition owed_to (s : state) (a : N) : N :=
  (if claimed s a then 0 else tpt s * winning_of s a) + outstanding s a.

Theorem VCover_claim v2 e w w' A x :
  ClaimInv w A -> VInv v2 w A x -> pay_token (st w) <> lp_token (st w) -> caller e <> sc_addr ->
  claim_vested v2 e w = Ok w' ->
  ClaimInv w' A /\ VInv v2 w' A x /\ lp_token (st w') = lp_token (st w) /\
  exists paid,
    bal w' sc_addr (lp_token (st w)) 0 + paid = bal w sc_addr (lp_token (st w)) 0 /\
    bal w' (caller e) (lp_token (st w)) 0 = bal w (caller e) (lp_token (st w)) 0 + paid /\
    owed_to (st w) (caller e) = owed_to (st w') (caller e) + paid.
Proof.
  intros Hi Hv Htok Hne E. unfold claim_vested in E.
  apply bind_ok in E. destruct E as (u & _ & E).
  apply bind_ok in E. destruct E as (w1 & E1 & E).
  assert (H1 : ClaimInv w1 A /\ VInv v2 w1 A x /\ claimed (st w1) (caller e) = true /\
               lp_token (st w1) = lp_token (st w) /\
               (forall y, bal w1 y (lp_token (st w)) 0 = bal w y (lp_token (st w)) 0) /\
               owed_to (st w) (caller e) = outstanding (st w1) (caller e)).
  { destruct (claimed (st w) (caller e)) eqn:Hcl.
    - inversion E1; subst w1. split; [exact Hi|]. split; [exact Hv|]. split; [exact Hcl|]. split; [reflexivity|]. split; [reflexivity|].
      unfold owed_to. rewrite ?Hcl. cbv iota. lia.
    - destruct (results_VInv v2 e w A x Hi Hv Htok Hne Hcl w1 E1) as (Hi1 & Hv1 & Hc1 & Ht1 & Hb1 & Hlp1 & Hbal1 & _).
      split; [exact Hi1|]. split; [exact Hv1|]. split; [exact Hc1|]. split; [exact Hlp1|]. split; [exact Hbal1|].
      unfold owed_to, outstanding. rewrite ?Hcl, Ht1, Hb1. cbv iota.
      pose proof (vi_fresh _ _ _ _ Hv _ Hcl) as Hz. pose proof (vi_le _ _ _ _ Hv (caller e)). lia. }
  destruct H1 as (Hi1 & Hv1 & Hc1 & Hlp1 & Hbal1 & Howed).
  apply bind_ok in E. destruct E as (amt & Ea & E).
  destruct (claimable_le v2 e (st w1) (caller e) amt (vi_sched _ _ _ _ Hv1) (vi_le _ _ _ _ Hv1) Ea) as [Hamt Hsch'].
  destruct (N.ltb_spec 0 amt) as [Hp|Hz].
  - apply bind_ok in E. destruct E as (w2 & Et & E).
    apply transfer_ok in Et. destruct Et as [Hfunds ->].
    set (b2 := bal_after (bal w1) sc_addr (caller e) (lp_token (st w1)) 0 amt) in *.
    set (s2 := st w1 <| claimed_balance := upd (claimed_balance (st w1)) (caller e) (claimed_balance (st w1) (caller e) + amt) |>) in *.
    assert (HinA : In (caller e) A).
    { destruct (in_dec N.eq_dec (caller e) A) as [Hin|Hn]; [exact Hin|].
      pose proof (vi_support _ _ _ _ Hv1 _ Hn). unfold outstanding in Hamt. lia. }
    assert (Hw' : st w' = s2 /\ bal w' = b2).
    { destruct v2; inversion E; subst w'; split; reflexivity. }
    destruct Hw' as [Hst' Hbal'].
    assert (Ho2 : forall a, In a A -> a <> caller e -> outstanding s2 a = outstanding (st w1) a).
    { intros a _ Ha. unfold outstanding, s2. cbn. rewrite upd_other by exact Ha. reflexivity. }
    assert (Ho2c : outstanding s2 (caller e) + amt = outstanding (st w1) (caller e)).
    { unfold outstanding in *. unfold s2. cbn. rewrite upd_same. lia. }
    assert (Hpt1 : pay_token (st w1) <> lp_token (st w1)).
    { rewrite Hlp1. intros Hx. apply Htok. rewrite <- Hx.
      destruct (claimed (st w) (caller e)) eqn:Hcl; [inversion E1; reflexivity|].
      unfold compute_launchpad_results in E1.
      apply bind_ok in E1. destruct E1 as (u1 & _ & E1). apply bind_ok in E1. destruct E1 as ([w0 wins] & Es & E1).
      pose proof (settle_spec e w w0 wins Es) as Hs. cbn zeta in Hs.
      destruct Hs as (_ & _ & _ & _ & _ & _ & _ & _ & _ & Htf & _).
      destruct (tf_price' _ _ Htf) as [_ Hpt]. destruct (0 <? wins); inversion E1; subst w1; cbn; congruence. }
    split; [|split; [|split]].
    + eapply ClaimInv_same_ledger; [exact Hi1|rewrite Hst'; reflexivity..|].
      rewrite Hst', Hbal'. cbn. unfold b2.
      rewrite bal_after_other; [lia| |]; intros Hx; inversion Hx; congruence.
    + destruct Hv1 as [Hvb Hvle Hvf Hvs Hvsch]. constructor; rewrite Hst'.
      * rewrite Hbal'. change (lp_token s2) with (lp_token (st w1)). change (tpt s2) with (tpt (st w1)).
        change (nr_winning s2) with (nr_winning (st w1)). change (surplus s2) with (surplus (st w1)).
        unfold b2. rewrite bal_after_from by congruence. rewrite Hvb.
        pose proof (sumN_map_upd (outstanding (st w1)) (outstanding s2) A (caller e) (ci_nodup _ _ Hi) HinA Ho2) as Hsum.
        lia.
      * intros a. unfold s2. cbn. destruct (N.eq_dec a (caller e)) as [->|Hna].
        -- rewrite upd_same. unfold outstanding in Hamt. specialize (Hvle (caller e)). lia.
        -- rewrite upd_other by exact Hna. apply Hvle.
      * exact Hvf.
      * exact Hvs.
      * exact Hsch'.
    + rewrite Hst'. exact Hlp1.
    + exists amt. rewrite Hbal'. unfold b2. rewrite Hlp1.
      rewrite bal_after_from by congruence. rewrite bal_after_to by congruence.
      rewrite Hlp1 in Hfunds. rewrite !Hbal1 in *.
      split; [lia|]. split; [reflexivity|].
      rewrite Howed, Hst'. unfold owed_to. change (claimed s2) with (claimed (st w1)). rewrite Hc1. lia.
  - inversion E; subst w'; clear E. assert (amt = 0) by lia. subst amt.
    split; [exact Hi1|]. split; [exact Hv1|]. split; [exact Hlp1|].
    exists 0. rewrite !Hbal1. split; [lia|]. split; [lia|].
    rewrite Howed. unfold owed_to. rewrite Hc1. lia.
Qed.

Lemma bal_set_bal (w : world) b : bal (w <| bal := b |>) = b. Proof. reflexivity. Qed.

(** ** the owner's withdrawal: exactly the surplus, once; the winners' cover stays *)
Theorem VCover_owner v2 e w w' A x :
  ClaimInv w A -> VInv v2 w A x -> pay_token (st w) <> lp_token (st w) -> caller e <> sc_addr ->
  claim_ticket_payment_gt e w = Ok w' ->
  VInv v2 w' A x /\ surplus (st w') = 0 /\ lp_token (st w') = lp_token (st w) /\
  bal w' sc_addr (lp_token (st w)) 0 + surplus (st w) = bal w sc_addr (lp_token (st w)) 0 /\
  bal w' (caller e) (lp_token (st w)) 0 = bal w (caller e) (lp_token (st w)) 0 + surplus (st w).
Proof.
  intros Hi Hv Htok Hne E. unfold claim_ticket_payment_gt in E.
  apply bind_ok in E. destruct E as (u & _ & E).
  destruct (ClaimInv_pay_leg e w A Hi Hne) as (w1 & Hl & Hi1 & Hz & (c1 & Hs1) & Hb1).
  unfold pay_leg in Hl. rewrite Hl in E. cbn [bind] in E.
  assert (Hc10 : c1 = 0) by (rewrite Hs1 in Hz; exact Hz). subst c1.
  assert (Hb1lp : forall y, bal w1 y (lp_token (st w)) 0 = bal w y (lp_token (st w)) 0).
  { intros y. rewrite Hb1. destruct (0 <? claimable_payment (st w)); [|reflexivity].
    apply bal_after_other; intros Hx; inversion Hx; congruence. }
  destruct Hv as [Hvb Hvle Hvf Hvs Hvsch].
  set (s2 := st w1 <| total_deposited := 0 |>) in *.
  assert (Hfields : lp_token s2 = lp_token (st w) /\ tpt s2 = tpt (st w) /\ nr_winning s2 = nr_winning (st w) /\
                    total_claimable s2 = total_claimable (st w) /\ claimed_balance s2 = claimed_balance (st w) /\
                    claimed s2 = claimed (st w) /\ sched1 s2 = sched1 (st w) /\ sched2 s2 = sched2 (st w) /\
                    surplus s2 = 0 /\ price (st w1) = price (st w) /\ tpt (st w1) = tpt (st w) /\
                    total_deposited (st w1) = total_deposited (st w) /\ lp_token (st w1) = lp_token (st w)).
  { unfold s2. rewrite Hs1. cbn. repeat split; reflexivity. }
  destruct Hfields as (Hlp & Htpt & Hn & Htc & Hcb & Hcl & Hsc1 & Hsc2 & Hsur & Hpr1 & Htpt1 & Htd1 & Hlp1).
  assert (Hv2 : forall b', b' sc_addr (lp_token (st w)) 0 + surplus (st w) = bal w sc_addr (lp_token (st w)) 0 ->
                VInv v2 (set_st w1 s2 <| bal := b' |>) A x).
  { intros b' Hb'. constructor; cbn [st bal set_st]; rewrite ?st_set_st.
    - change (st (set_st w1 s2 <| bal := b' |>)) with s2. change (bal (set_st w1 s2 <| bal := b' |>)) with b'.
      rewrite Hlp, Htpt, Hn, Hsur.
      rewrite (sumN_map_ext (outstanding s2) (outstanding (st w)) A)
        by (intros a _; unfold outstanding; rewrite Htc, Hcb; reflexivity).
      lia.
    - change (st (set_st w1 s2 <| bal := b' |>)) with s2. intros a. rewrite Htc, Hcb. apply Hvle.
    - change (st (set_st w1 s2 <| bal := b' |>)) with s2. intros a. rewrite Htc, Hcl. apply Hvf.
    - change (st (set_st w1 s2 <| bal := b' |>)) with s2. intros a. rewrite Htc. apply Hvs.
    - change (st (set_st w1 s2 <| bal := b' |>)) with s2. eapply sched_inv_ext; [| | | |exact Hvsch]; auto. }
  assert (Hsurplus : surplus (st w) = total_deposited (st w1) - claimable_payment (st w) / price (st w1) * tpt (st w1)).
  { unfold surplus. rewrite Hpr1, Htpt1, Htd1. reflexivity. }
  destruct (N.eqb_spec (total_deposited (st w1)) 0) as [Hd0|Hdn].
  - inversion E; subst w'; clear E. assert (Hs0 : surplus (st w) = 0) by (rewrite Hsurplus, Hd0; apply N.sub_0_l).
    assert (Hw2 : set_st w1 s2 = (set_st w1 s2 <| bal := bal w1 |>)) by (destruct w1; reflexivity).
    split; [rewrite Hw2; apply Hv2; rewrite Hb1lp; lia|].
    rewrite ?st_set_st. split; [exact Hsur|]. split; [exact Hlp|]. rewrite ?bal_set_st, !Hb1lp, Hs0. lia.
  - destruct (N.leb_spec (total_deposited (st w1)) (claimable_payment (st w) / price (st w1) * tpt (st w1))) as [Hle|Hgt].
    + inversion E; subst w'; clear E. assert (Hs0 : surplus (st w) = 0) by (rewrite Hsurplus; apply N.sub_0_le; exact Hle).
      assert (Hw2 : set_st w1 s2 = (set_st w1 s2 <| bal := bal w1 |>)) by (destruct w1; reflexivity).
      split; [rewrite Hw2; apply Hv2; rewrite Hb1lp; lia|].
      rewrite ?st_set_st. split; [exact Hsur|]. split; [exact Hlp|]. rewrite ?bal_set_st, !Hb1lp, Hs0. lia.
    + apply transfer_ok in E. destruct E as [Hfunds ->]. rewrite <- Hsurplus in *.
      rewrite bal_set_st, Hlp1, Hb1lp in Hfunds.
      split; [apply Hv2; rewrite Hlp1, bal_set_st, bal_after_from by congruence; rewrite Hb1lp; lia|].
      cbn [st bal]. rewrite ?st_set_st. split; [exact Hsur|]. split; [exact Hlp|].
      rewrite !bal_set_bal, ?bal_set_st, Hlp1. rewrite bal_after_from by congruence. rewrite bal_after_to by congruence.
      rewrite !Hb1lp. lia.
Qed.

(** ** liveness: with the invariant no claim and no withdrawal fails for lack of tokens *)
Theorem VCover_owner_live v2 e w A x :
  ClaimInv w A -> VInv v2 w A x -> pay_token (st w) <> lp_token (st w) -> caller e <> sc_addr ->
  get_launch_stage e (st w) = Claim ->
  exists w', claim_ticket_payment_gt e w = Ok w'.
Proof.
  intros Hi Hv Htok Hne Hst. unfold claim_ticket_payment_gt, require_stage. rewrite Hst. cbn [stage_eqb require bind].
  destruct (ClaimInv_pay_leg e w A Hi Hne) as (w1 & Hl & _ & Hz & (c1 & Hs1) & Hb1).
  unfold pay_leg in Hl. rewrite Hl. cbn [bind].
  destruct (total_deposited (st w1) =? 0); [eexists; reflexivity|].
  destruct (N.leb_spec (total_deposited (st w1)) (claimable_payment (st w) / price (st w1) * tpt (st w1))) as [Hle|Hgt];
    [eexists; reflexivity|].
  eexists. apply transfer_ok. split; [|reflexivity].
  rewrite bal_set_st.
  assert (Hlp1 : lp_token (st w1) = lp_token (st w)) by (rewrite Hs1; reflexivity).
  assert (Hb1lp : bal w1 sc_addr (lp_token (st w)) 0 = bal w sc_addr (lp_token (st w)) 0).
  { rewrite Hb1. destruct (0 <? claimable_payment (st w)); [|reflexivity].
    apply bal_after_other; intros Hx; inversion Hx; congruence. }
  rewrite Hlp1, Hb1lp. rewrite (vi_bal _ _ _ _ Hv).
  assert (Hsur : total_deposited (st w1) - claimable_payment (st w) / price (st w1) * tpt (st w1) = surplus (st w))
    by (unfold surplus; rewrite Hs1; reflexivity).
  rewrite Hsur. lia.
Qed.

(** cumulative amount released to a winner with entitlement [total] at the round of [e] *)
Definition vested_now (v2 : bool) (e : env) (s : state) (total : N) : N :=
  if v2 then vested_v2 s total (round e)
  else match sched1 s with Some sch => vested_v1 sch total (round e) | None => 0 end.

Lemma compute_claimable_live v2 e s a :
  sched_inv v2 s ->
  (0 < total_claimable s a ->
   claimed_balance s a < total_claimable s a /\ claimed_balance s a <= vested_now v2 e s (total_claimable s a)) ->
  exists amt, (if v2 then compute_claimable_v2 e s a else compute_claimable_v1 e s a) = Ok amt.
Proof.
  intros Hs Hc. unfold vested_now in Hc. destruct v2.
  - unfold compute_claimable_v2. destruct (N.eqb_spec (total_claimable s a) 0) as [E0|E0]; [eexists; reflexivity|].
    destruct Hc as [Hlt Hle]; [lia|]. rewrite (proj2 (N.ltb_lt _ _) Hlt). cbn [require bind].
    eexists. apply bsub_ok. split; [exact Hle|reflexivity].
  - unfold compute_claimable_v1. destruct (N.eqb_spec (total_claimable s a) 0) as [E0|E0]; [eexists; reflexivity|].
    destruct Hc as [Hlt Hle]; [lia|]. rewrite (proj2 (N.ltb_lt _ _) Hlt). cbn [require bind].
    unfold sched_inv in Hs. destruct (sched1 s) as [[[[[start initial] times] pct] period]|]; [|eexists; reflexivity].
    destruct Hs as [[_ Hper] _]. unfold vested_v1 in Hle.
    destruct (round e <? start); [eexists; reflexivity|].
    destruct (N.eqb_spec initial MAX_PERCENTAGE) as [Hm|Hm]; [eexists; reflexivity|].
    destruct Hper as [Hper|Hper]; [|contradiction].
    rewrite (proj2 (N.ltb_lt _ _) Hper). cbn [assert_nopanic bind].
    eexists. apply bsub_ok. split; [exact Hle|reflexivity].
Qed.

Theorem VCover_claim_live v2 e w A x :
  ClaimInv w A -> VInv v2 w A x -> pay_token (st w) <> lp_token (st w) -> caller e <> sc_addr ->
  (v2 = true -> paused (st w) = false) ->
  (claimed (st w) (caller e) = false -> get_launch_stage e (st w) = Claim /\ range (st w) (caller e) <> None) ->
  (claimed (st w) (caller e) = true -> 0 < total_claimable (st w) (caller e) ->
   claimed_balance (st w) (caller e) < total_claimable (st w) (caller e) /\ claimed_balance (st w) (caller e) <= vested_now v2 e (st w) (total_claimable (st w) (caller e))) ->
  exists w', claim_vested v2 e w = Ok w'.
Proof.
  intros Hi Hv Htok Hne Hpau Hfirst Hlater. unfold claim_vested.
  assert (Hp : (if v2 then require (negb (paused (st w))) else Ok tt) = Ok tt).
  { destruct v2; [|reflexivity]. rewrite (Hpau eq_refl). reflexivity. }
  rewrite Hp. cbn [bind].
  assert (H1 : exists w1, (if claimed (st w) (caller e) then Ok w else compute_launchpad_results e w) = Ok w1 /\ VInv v2 w1 A x /\ (0 < total_claimable (st w1) (caller e) ->
                claimed_balance (st w1) (caller e) < total_claimable (st w1) (caller e) /\ claimed_balance (st w1) (caller e) <= vested_now v2 e (st w1) (total_claimable (st w1) (caller e)))).
  { destruct (claimed (st w) (caller e)) eqn:Hcl.
    - exists w. split; [reflexivity|]. split; [exact Hv|]. apply Hlater. reflexivity.
    - destruct (Hfirst eq_refl) as [Hst Hr].
      destruct (ClaimInv_settle e w A Hi Hr) as (w0 & wins & Es & _).
      assert (Ex : exists w1, compute_launchpad_results e w = Ok w1).
      { unfold compute_launchpad_results, require_stage. rewrite Hst. cbn [stage_eqb require bind]. rewrite Es. cbn [bind].
        destruct (0 <? wins); eexists; reflexivity. }
      destruct Ex as [w1 E1]. exists w1. split; [exact E1|].
      destruct (results_VInv v2 e w A x Hi Hv Htok Hne Hcl w1 E1) as (_ & Hv1 & _ & _ & Hb1 & _).
      split; [exact Hv1|]. intros Hpos. rewrite Hb1. split; [exact Hpos|lia]. }
  destruct H1 as (w1 & E1 & Hv1 & Hc1). rewrite E1. cbn [bind].
  destruct (compute_claimable_live v2 e (st w1) (caller e) (vi_sched _ _ _ _ Hv1) Hc1) as [amt Ea].
  rewrite Ea. cbn [bind].
  destruct (claimable_le v2 e (st w1) (caller e) amt (vi_sched _ _ _ _ Hv1) (vi_le _ _ _ _ Hv1) Ea) as [Hamt _].
  destruct (N.ltb_spec 0 amt) as [Hpos|Hz]; [|eexists; reflexivity].
  assert (HinA : In (caller e) A).
  { destruct (in_dec N.eq_dec (caller e) A) as [Hin|Hn]; [exact Hin|].
    pose proof (vi_support _ _ _ _ Hv1 _ Hn). unfold outstanding in Hamt. lia. }
  assert (Hfunds : amt <= bal w1 sc_addr (lp_token (st w1)) 0).
  { rewrite (vi_bal _ _ _ _ Hv1). pose proof (sumN_map_ge (outstanding (st w1)) A (caller e) HinA). lia. }
  destruct (transfer w1 sc_addr (caller e) (lp_token (st w1)) 0 amt) as [w2|k] eqn:Et.
  - cbn [bind]. eexists; reflexivity.
  - exfalso. unfold transfer in Et. destruct (N.leb_spec amt (bal w1 sc_addr (lp_token (st w1)) 0)); [discriminate|lia].
Qed.

(** when every winner is paid in full and the owner has withdrawn, only foreign tokens are left *)
Theorem VCover_drained v2 w A x :
  VInv v2 w A x -> nr_winning (st w) = 0 -> (forall a, In a A -> outstanding (st w) a = 0) -> surplus (st w) = 0 ->
  bal w sc_addr (lp_token (st w)) 0 = x.
Proof.
  intros Hv Hn Hall Hs. rewrite (vi_bal _ _ _ _ Hv), Hn, Hs.
  rewrite (sumN_map_ext (outstanding (st w)) (fun _ => 0) A Hall).
  assert (sumN (map (fun _ : N => 0) A) = 0) as ->.
  { clear. induction A as [|y A IH]; cbn [map]; rewrite ?sumN_cons; [reflexivity|]. lia. }
  lia.
Qed.

(** ** any order of vesting claims (first or later, any caller, any round) and owner withdrawals *)
Inductive vstep (v2 : bool) : world -> world -> Prop :=
| vs_claim e w w' : caller e <> sc_addr -> claim_vested v2 e w = Ok w' -> vstep v2 w w'
| vs_owner e w w' : caller e <> sc_addr -> claim_ticket_payment_gt e w = Ok w' -> vstep v2 w w'.

Inductive vsteps (v2 : bool) : world -> world -> Prop :=
| vss_nil w : vsteps v2 w w
| vss_cons w w1 w2 : vstep v2 w w1 -> vsteps v2 w1 w2 -> vsteps v2 w w2.

Theorem VInv_steps v2 w w' A x :
  ClaimInv w A -> VInv v2 w A x -> pay_token (st w) <> lp_token (st w) -> vsteps v2 w w' ->
  ClaimInv w' A /\ VInv v2 w' A x /\ pay_token (st w') <> lp_token (st w') /\ lp_token (st w') = lp_token (st w).
Proof.
  intros Hi Hv Htok Hs. induction Hs as [w|w w1 w2 H1 _ IH]; [auto|].
  assert (H1' : ClaimInv w1 A /\ VInv v2 w1 A x /\ pay_token (st w1) = pay_token (st w) /\ lp_token (st w1) = lp_token (st w)).
  { destruct H1 as [e w w1 Hne E|e w w1 Hne E].
    - destruct (VCover_claim v2 e w w1 A x Hi Hv Htok Hne E) as (A1 & A2 & A3 & _).
      destruct (tf_price' _ _ (claim_vested_tf _ _ _ _ E)) as [_ Hpt]. auto.
    - destruct (ClaimInv_owner_gt e w w1 A Hi Hne Htok E) as (A1 & _).
      destruct (VCover_owner v2 e w w1 A x Hi Hv Htok Hne E) as (A2 & _ & A3 & _).
      destruct (tf_price' _ _ (claim_ticket_payment_gt_tf _ _ _ E)) as [_ Hpt]. auto. }
  destruct H1' as (Hi1 & Hv1 & Hpt & Hlp).
  destruct (IH Hi1 Hv1 ltac:(rewrite Hpt, Hlp; exact Htok)) as (B1 & B2 & B3 & B4).
  split; [exact B1|]. split; [exact B2|]. split; [exact B3|]. congruence.
Qed.

(** ... and when every winner has been paid in full and the owner has withdrawn, both balances are
    what the invariants say: no payment tokens, only the foreign launchpad tokens [x] *)
Corollary VInv_steps_drained v2 w w' A x :
  ClaimInv w A -> VInv v2 w A x -> pay_token (st w) <> lp_token (st w) -> vsteps v2 w w' ->
  (forall a, In a A -> confirmed (st w') a = 0) -> claimable_payment (st w') = 0 ->
  nr_winning (st w') = 0 -> (forall a, In a A -> outstanding (st w') a = 0) -> surplus (st w') = 0 ->
  bal w' sc_addr (pay_token (st w')) 0 = 0 /\ bal w' sc_addr (lp_token (st w')) 0 = x.
Proof.
  intros Hi Hv Htok Hs Hall Hcp Hn Hout Hsur.
  destruct (VInv_steps v2 w w' A x Hi Hv Htok Hs) as (Hi' & Hv' & _).
  split; [eapply ClaimInv_drained; eauto|eapply VCover_drained; eauto].
Qed.

(** ** the invariant is met by a concrete sale at the start of its claim period, and a claim moves it as stated *)
From LP Require Import Proofs.Examples.
Definition gt2_claim1 := step_sha Gt2 gt2_done (mkenv 2 31 0 [], 100%nat, [], CClaim).
Example VInv_gt2_done : VInv true gt2_done [2; 3; 4] 0 /\ get_launch_stage (mkenv 2 31 0 []) (st gt2_done) = Claim /\
  nr_winning (st gt2_done) = 3 /\
  (nr_winning (st gt2_claim1), total_claimable (st gt2_claim1) 2, claimed_balance (st gt2_claim1) 2,
   bal gt2_claim1 sc_addr (lp_token (st gt2_done)) 0) = (2, 100, 100, 200).
Proof.
  split; [|vm_compute; repeat split; reflexivity].
  apply VInv_start.
  - vm_compute. reflexivity.
  - intros a. vm_compute. reflexivity.
  - intros a. vm_compute. reflexivity.
  - vm_compute. reflexivity.
  - vm_compute. reflexivity.
  - vm_compute. discriminate.
  - vm_compute. reflexivity.
Qed.
