(** Extraction of the executable model for the correspondence check.
    Only [ExtrOcamlBasic] (bool, option, list, prod, unit, sumbool as OCaml types); numbers stay
    the extracted inductive types. No [Extract Constant]. *)
From Coq Require Extraction.
From Coq Require Import ExtrOcamlBasic.
From LP Require Import Model.Exec.
Extraction "model.ml" exec_sha deploy snapshot world0 init_bal state0 deposit_size.
