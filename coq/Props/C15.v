(** * C15 - Privileged endpoints reject everyone but their intended callers. *)
From Coq Require Import String.
From LP Require Import Proofs.Tactics Proofs.Gates Proofs.Permissions Proofs.GenTable Proofs.Examples.
Open Scope N_scope.

(** for all eight contracts, any hash function, any state: an accepted owner-only call comes from
    the owner; blacklist management from the owner or the support address; base selection (and
    v2's distribution) from the owner or a non-contract account *)
Theorem C15_owner_only : forall (H : list N -> list N) v e b w c w' r,
  dispatch H v e b w c = Ok (w', r) -> owner_only_call c = true -> is_owner e.
Proof. exact dispatch_owner_only. Qed.
Theorem C15_owner_or_support : forall (H : list N -> list N) v e b w c w' r,
  dispatch H v e b w c = Ok (w', r) -> owner_or_support_call c = true -> owner_or_support e (st w).
Proof. exact dispatch_owner_or_support. Qed.
Theorem C15_owner_or_user : forall (H : list N -> list N) v e b w c w' r,
  dispatch H v e b w c = Ok (w', r) -> owner_or_user_call v c = true -> owner_or_user e.
Proof. exact dispatch_owner_or_user. Qed.

(** the [#[only_owner]] / [#[payable]] attributes regenerated from the sources on this run agree
    with that classification for every contract and call kind, and the only endpoints of the sources
    that the model does not cover are the three SFT set-up endpoints of the NFT variants *)
Theorem C15_tables_agree : forallb (fun v => forallb (table_agrees v) all_calls) all_variants = true.
Proof. exact tables_agree. Qed.
Theorem C15_unmodelled : map unmodelled all_variants =
  [[]; []; ["createInitialSfts"; "issueMysterySft"; "setTransferRole"]; []; []; [];
   ["createInitialSfts"; "issueMysterySft"; "setTransferRole"]; []]%string.
Proof. exact unmodelled_endpoints. Qed.

(** a rejected transaction leaves the world unchanged: in the model [exec] returns [Err] and the
    caller keeps the old world (that the VM reverts is the harness's reference semantics) *)
Example C15_nonvacuous :
  exec_sha Base (mkenv 2 1 0 []) 5 [] base0 (CAddTickets [(2, 3)]) = Err FUser /\
  (exists w, exec_sha Base (mkenv 1 1 0 []) 5 [] base0 (CAddTickets [(2, 3)]) = Ok (w, [])) /\
  exec_sha Base (mkenv 14 5 0 []) 5 [] base_confirmed (CBlacklist [2]) = Err FUser /\
  exec_sha Base (mkenv 20 21 0 []) 5 [seedA] (step_sha Base base_confirmed (mkenv 2 20 0 [], 50%nat, [], CFilter)) CSelect = Err FUser.
Proof. vm_compute. repeat split; eauto. Qed.

Print Assumptions C15_owner_only.
Print Assumptions C15_owner_or_support.
Print Assumptions C15_owner_or_user.
Print Assumptions C15_tables_agree.
Print Assumptions C15_unmodelled.
Print Assumptions C15_nonvacuous.
