(** * C19 - Pause freezes confirmations and selection steps without side effects. *)
From LP Require Import Proofs.Tactics Proofs.Gates Proofs.Permissions Proofs.Frames Proofs.Resume Proofs.Pause Proofs.Examples.
Open Scope N_scope.

(** while paused, confirmations, filtering and base selection (all contracts) and v2's distribution
    step and claims are rejected (a rejected transaction changes nothing) *)
Theorem C19_blocked : forall (H : list N -> list N) v e b w c,
  paused (st w) = true -> pause_gated v c = true -> exists k, dispatch H v e b w c = Err k.
Proof. exact dispatch_paused. Qed.

(** pause followed by unpause restores state and balances exactly (only the flag was touched) *)
Theorem C19_transparent : forall e e' w w1 w2,
  paused (st w) = false -> pause_endpoint e w = Ok w1 -> unpause_endpoint e' w1 = Ok w2 ->
  st w2 = st w /\ bal w2 = bal w.
Proof. exact pause_unpause_state. Qed.

(** only the owner can pause / unpause, and nothing else changes the flag: every other accepted
    endpoint keeps all terms (of which the flag is one) *)
Theorem C19_pause_owner : forall e w w', pause_endpoint e w = Ok w' -> is_owner e /\ st w' = st w <| paused := true |> /\ bal w' = bal w.
Proof. exact gate_pause. Qed.
Theorem C19_filter_keeps_flag : forall e b w w' x,
  filter_tickets e b w = Ok (w', x) ->
  terms_of (st w') = terms_of (st w) /\ fl_selected (st w') = fl_selected (st w) /\
  fl_additional (st w') = fl_additional (st w) /\
  (x = 0 -> fl_filtered (st w') = true) /\ (x <> 0 -> fl_filtered (st w') = fl_filtered (st w)).
Proof. exact filter_tickets_tf. Qed.

(** an operation interrupted before the pause resumes after the unpause to the same result as an
    uninterrupted run: the saved progress is untouched by pause / unpause (C19_transparent) and the
    resume laws of C04 apply *)
Theorem C19_resume_filter : forall l w wk e b,
  filter_op_ok (st w) -> after_interrupted filter_tickets l w = Some wk ->
  filter_tickets e b wk = filter_tickets e (total_budget l b) w.
Proof. exact filter_multi_resume. Qed.

(** the owner's withdrawal does not read the flag *)
Theorem C19_withdrawal_ignores_pause : forall e w f,
  claim_ticket_payment e (set_st w (st w <| paused := f |>)) =
  match claim_ticket_payment e w with
  | Ok w' => Ok (set_st w' (st w' <| paused := f |>))
  | Err k => Err k
  end.
Proof. exact claim_ticket_payment_ignores_pause. Qed.

Example C19_nonvacuous :
  let wp := step_sha Base base_confirmed (mkenv 1 15 0 [], 5%nat, [], CPause) in
  paused (st wp) = true /\
  exec_sha Base (mkenv 2 15 0 [(0, 0, 1000)]) 5 [] wp (CConfirm 1) = Err FUser /\
  exec_sha Base (mkenv 2 20 0 []) 5 [] wp CFilter = Err FUser /\
  (exists w r, exec_sha Base (mkenv 2 20 0 []) 5 [] (step_sha Base wp (mkenv 1 16 0 [], 5%nat, [], CUnpause)) CFilter = Ok (w, r)).
Proof. vm_compute. repeat split; eauto. Qed.

Print Assumptions C19_blocked.
Print Assumptions C19_transparent.
Print Assumptions C19_pause_owner.
Print Assumptions C19_filter_keeps_flag.
Print Assumptions C19_resume_filter.
Print Assumptions C19_withdrawal_ignores_pause.
Print Assumptions C19_nonvacuous.
