(** * C16 - Locked-token variants split a winner's tokens exactly between lock and wallet. *)
From LP Require Import Proofs.Tactics Proofs.LedgerBase Proofs.Lock Proofs.Examples.
Open Scope N_scope.

(** the send function of the locked variants: locked = floor(entitlement x pct / 100%) before the
    unlock epoch (nothing at or after it, nothing if it rounds to zero), the remainder directly;
    locked + direct = entitlement; the lock call carries (unlock epoch, winner) *)
Theorem C16_split : forall e w dest amt w',
  lock_pct (st w) <= MAX_PERCENTAGE ->
  send_locked_launchpad_tokens e w dest amt = Ok w' ->
  let s := st w in
  let la := lock_amount s e amt in
  la + (amt - la) = amt /\
  st w' = s /\
  locks w' = (if 0 <? la then [{| lk_epoch := unlock_epoch s; lk_dest := dest; lk_tok := lp_token s;
                                  lk_nonce := 0; lk_amt := la |}] else []) ++ locks w /\
  bal w' = (let b1 := if 0 <? la then bal_after (bal w) sc_addr (lock_sc s) (lp_token s) 0 la else bal w in
            if 0 <? amt - la then bal_after b1 sc_addr dest (lp_token s) 0 (amt - la) else b1).
Proof. exact send_locked_spec. Qed.

Theorem C16_locked_formula : forall s e amt,
  epoch e < unlock_epoch s -> lock_amount s e amt = amt * lock_pct s / MAX_PERCENTAGE.
Proof. exact lock_amount_early. Qed.
Theorem C16_nothing_locked_late : forall s e amt, unlock_epoch s <= epoch e -> lock_amount s e amt = 0.
Proof. exact lock_amount_late. Qed.
Theorem C16_locked_le : forall s e amt, lock_pct s <= MAX_PERCENTAGE -> lock_amount s e amt <= amt.
Proof. exact lock_amount_le. Qed.
Theorem C16_full_lock : forall s e amt,
  epoch e < unlock_epoch s -> lock_pct s = MAX_PERCENTAGE -> lock_amount s e amt = amt.
Proof. exact lock_amount_full. Qed.
Theorem C16_init : forall e s pct unlock a s',
  lock_init e s pct unlock a = Ok s' ->
  0 < pct /\ pct <= MAX_PERCENTAGE /\ epoch e < unlock /\ is_sc a = true /\ a <> 32 /\
  lock_pct s' = pct /\ unlock_epoch s' = unlock /\ lock_sc s' = a.
Proof. exact lock_init_ok. Qed.

Example C16_nonvacuous :
  let s := state0 <| lock_pct := 2500 |> <| unlock_epoch := 10 |> in
  lock_amount s (mkenv 2 0 9 []) 1001 = 250 /\ lock_amount s (mkenv 2 0 10 []) 1001 = 0 /\
  lock_amount s (mkenv 2 0 9 []) 3 = 0.
Proof. vm_compute. repeat split. Qed.

Print Assumptions C16_split.
Print Assumptions C16_locked_formula.
Print Assumptions C16_nothing_locked_late.
Print Assumptions C16_locked_le.
Print Assumptions C16_full_lock.
Print Assumptions C16_init.
Print Assumptions C16_nonvacuous.
