(** * C10 - Blacklisting refunds in full and excludes; un-blacklisting restores. *)
From LP Require Import Proofs.Tactics Proofs.LedgerBase Proofs.Gates Proofs.Frames Proofs.Settle Proofs.Confirm Proofs.Filter Proofs.Examples.
From LP Require Import Proofs.Resume Proofs.Setup Proofs.BlacklistInv Proofs.SetupGt Proofs.BlacklistInvGt Proofs.SetupNft Proofs.SetupNgt Proofs.BlacklistInvNft.
Open Scope N_scope.

(** the blacklist loop processes the listed participants one by one with [bl_one] *)
Theorem C10_loop : forall e w a l,
  blacklist_loop e w (a :: l) = do w1 <- bl_one e w a; blacklist_loop e w1 l.
Proof. exact blacklist_loop_cons. Qed.

(** one participant: must be allocated and not yet blacklisted; gets back exactly price x confirmed
    (one refund event), confirmed becomes 0, the flag is set, nobody else's confirmations / flags /
    ranges, no counter and no term changes *)
Theorem C10_blacklist_one : forall e w a w',
  bl_one e w a = Ok w' ->
  let s := st w in let c := confirmed s a in
  blacklisted s a = false /\ range s a <> None /\
  blacklisted (st w') a = true /\ confirmed (st w') a = 0 /\
  (forall x, x <> a -> confirmed (st w') x = confirmed s x /\ blacklisted (st w') x = blacklisted s x) /\
  range (st w') = range s /\ tf (st w') = tf s /\
  nr_winning (st w') = nr_winning s /\ total_guaranteed (st w') = total_guaranteed s /\
  last_ticket_id (st w') = last_ticket_id s /\ batch (st w') = batch s /\
  bal w' = (if 0 <? c then bal_after (bal w) sc_addr a (pay_token s) 0 (price s * c) else bal w) /\
  evs w' = (if 0 <? c then [{| ev_name := EvRefund; ev_nums := event_hdr e ++ [c; pay_token s; 0; price s * c] |}] else []) ++ evs w.
Proof. exact bl_one_spec. Qed.

(** only the owner or the support address, only before winner selection *)
Theorem C10_gate : forall e w l w',
  add_users_to_blacklist e w l = Ok w' ->
  owner_or_support e (st w) /\ (get_launch_stage e (st w) = AddTickets \/ get_launch_stage e (st w) = Confirm).
Proof. exact gate_blacklist. Qed.

(** consequences: a blacklisted participant cannot confirm (C07's acceptance condition) and, having
    no confirmed ticket, gets no range from the filter (C08's [new_range] with 0), hence cannot claim *)
Theorem C10_cannot_confirm : forall e w n w',
  pay_wf (pay e) -> confirm_tickets e w n = Ok w' -> blacklisted (st w) (caller e) = false.
Proof. exact confirm_needs_not_blacklisted. Qed.
Theorem C10_no_ticket_after_filter : forall before, new_range before 0 = None.
Proof. reflexivity. Qed.
(** ... and the claim endpoint of the six contracts that pay at once refuses a blacklisted caller
    outright, whatever ticket range is left (repair of finding F9: an empty allocation is never
    visited by the filter, so its range survived and the NFT contracts handed its blacklisted owner
    a participation SFT) *)
Theorem C10_cannot_claim : forall sf e w,
  blacklisted (st w) (caller e) = true -> exists k, claim_launchpad_tokens sf e w = Err k.
Proof. exact claim_blacklisted_fails. Qed.

(** un-blacklisting clears only the flags of the listed participants: nobody's tickets,
    confirmations, reservations, entitlements or any term changes *)
Theorem C10_unblacklist_frame : forall l s s',
  unblacklist_loop s l = Ok s' ->
  (forall a, In a l -> blacklisted s' a = false) /\
  (forall x, ~ In x l -> blacklisted s' x = blacklisted s x) /\
  confirmed s' = confirmed s /\ range s' = range s /\ batch s' = batch s /\ status s' = status s /\
  nr_winning s' = nr_winning s /\ total_guaranteed s' = total_guaranteed s /\ uts s' = uts s /\
  bl_uts s' = bl_uts s /\ gt_users s' = gt_users s /\ tf s' = tf s /\
  total_claimable s' = total_claimable s /\ claimed_balance s' = claimed_balance s.
Proof. exact unblacklist_loop_spec. Qed.

(** ** from deployment (launchpad, launchpad-locked-tokens): along every set-up history a blacklisted
    participant has no confirmed ticket ([C10_blacklisted_have_nothing_confirmed]); whoever is
    blacklisted when the (arbitrarily interrupted) filter completes owns no ticket afterwards - hence
    none in the draw - and its claim is rejected *)
Theorem C10_blacklisted_have_nothing_confirmed : forall (H : list N -> list N) v w,
  plain v -> setup_reach H v w -> forall a, blacklisted (st w) a = true -> confirmed (st w) a = 0.
Proof. exact setup_reach_BlInv. Qed.

Theorem C10_from_deployment : forall (H : list N -> list N) v w0 lf wf ef bf w1,
  plain v -> setup_reach H v w0 ->
  after_interrupted filter_tickets lf w0 = Some wf -> filter_tickets ef bf wf = Ok (w1, 0) ->
  forall a, blacklisted (st w0) a = true ->
    confirmed (st w1) a = 0 /\ range (st w1) a = None /\
    (forall sf e, caller e = a -> exists k, claim_launchpad_tokens sf e w1 = Err k).
Proof. exact deployed_blacklisted_excluded. Qed.

Example C10_nonvacuous :
  let w1 := step_sha Base base_confirmed (mkenv 1 15 0 [], 5%nat, [], CBlacklist [2]) in
  bal w1 2 0 0 = bal base_confirmed 2 0 0 + 2000 /\ confirmed (st w1) 2 = 0 /\ blacklisted (st w1) 2 = true /\
  confirmed (st w1) 3 = 2 /\
  exec_sha Base (mkenv 2 16 0 [(0, 0, 1000)]) 5 [] w1 (CConfirm 1) = Err FUser /\
  exec_sha Base (mkenv 1 20 0 []) 5 [] base_confirmed (CBlacklist [2]) = Err FUser.
Proof. vm_compute. repeat split. Qed.

(** the same for the four contracts with guaranteed tickets (gt1, migration, locked + gt, gt2), whose
    set-up histories also contain allocations with guarantees, refunding blacklisting, un-blacklisting
    (which re-books reservations) and vesting-schedule setters *)
Theorem C10_blacklisted_have_nothing_confirmed_gt : forall (H : list N -> list N) v w,
  guar v -> setup_reach_gt H v w -> forall a, blacklisted (st w) a = true -> confirmed (st w) a = 0.
Proof. exact setup_reach_gt_BlInv. Qed.

Theorem C10_from_deployment_gt : forall (H : list N -> list N) v w0 lf wf ef bf w1,
  guar v -> setup_reach_gt H v w0 ->
  after_interrupted filter_tickets lf w0 = Some wf -> filter_tickets ef bf wf = Ok (w1, 0) ->
  forall a, blacklisted (st w0) a = true ->
    confirmed (st w1) a = 0 /\ range (st w1) a = None /\
    (forall sf e, caller e = a -> exists k, claim_launchpad_tokens sf e w1 = Err k).
Proof. exact deployed_blacklisted_excluded_gt. Qed.

(** non-vacuity: a reachable gt2 state with a blacklisted participant (4) and a restored one (3) *)
Example C10_gt_nonvacuous :
  setup_reach_gt sha256 Gt2 gt2_bl_history /\
  blacklisted (st gt2_bl_history) 4 = true /\ blacklisted (st gt2_bl_history) 3 = false /\
  range (st gt2_bl_history) 4 <> None.
Proof. split; [exact (proj1 gt2_bl_history_reachable)|]. vm_compute. repeat split; discriminate. Qed.

(** ... and for the two contracts with an NFT fee, whose set-up histories also contain fee payments,
    the SFT set-up and the fee refund on blacklisting: with the two pairs above, all eight contracts *)
Theorem C10_blacklist_endpoint_any_contract : forall v we e w la w',
  (forall a, blacklisted (st w) a = true -> confirmed (st w) a = 0) ->
  blacklist_endpoint v we e w la = Ok w' ->
  forall a, blacklisted (st w') a = true -> confirmed (st w') a = 0.
Proof. exact BlInv_blacklist_any. Qed.

Theorem C10_blacklisted_have_nothing_confirmed_nft : forall (H : list N -> list N) w,
  setup_reach_nft H w -> forall a, blacklisted (st w) a = true -> confirmed (st w) a = 0.
Proof. exact setup_reach_nft_BlInv. Qed.

Theorem C10_blacklisted_have_nothing_confirmed_ngt : forall (H : list N -> list N) w,
  setup_reach_ngt H w -> forall a, blacklisted (st w) a = true -> confirmed (st w) a = 0.
Proof. exact setup_reach_ngt_BlInv. Qed.

Theorem C10_from_deployment_nft : forall (H : list N -> list N) w0 lf wf ef bf w1,
  setup_reach_nft H w0 ->
  after_interrupted filter_tickets lf w0 = Some wf -> filter_tickets ef bf wf = Ok (w1, 0) ->
  forall a, blacklisted (st w0) a = true ->
    confirmed (st w1) a = 0 /\ range (st w1) a = None /\
    (forall sf e, caller e = a -> exists k, claim_launchpad_tokens sf e w1 = Err k).
Proof. exact deployed_blacklisted_excluded_nft. Qed.

Theorem C10_from_deployment_ngt : forall (H : list N -> list N) w0 lf wf ef bf w1,
  setup_reach_ngt H w0 ->
  after_interrupted filter_tickets lf w0 = Some wf -> filter_tickets ef bf wf = Ok (w1, 0) ->
  forall a, blacklisted (st w0) a = true ->
    confirmed (st w1) a = 0 /\ range (st w1) a = None /\
    (forall sf e, caller e = a -> exists k, claim_launchpad_tokens sf e w1 = Err k).
Proof. exact deployed_blacklisted_excluded_ngt. Qed.

(** non-vacuity: a reachable state of the combined contract in which participant 3 paid for a ticket
    and the fee and was then blacklisted (refunded both), participant 2 untouched *)
Example C10_ngt_nonvacuous :
  setup_reach_ngt sha256 ngt_confirmed /\
  blacklisted (st ngt_confirmed) 3 = true /\ confirmed (st ngt_confirmed) 3 = 0 /\
  blacklisted (st ngt_confirmed) 2 = false /\ confirmed (st ngt_confirmed) 2 = 3 /\
  nft_payers (st ngt_confirmed) = [2].
Proof. split; [exact (proj1 ngt_confirmed_reachable)|]. vm_compute. repeat split. Qed.

Print Assumptions C10_loop.
Print Assumptions C10_blacklist_one.
Print Assumptions C10_gate.
Print Assumptions C10_cannot_confirm.
Print Assumptions C10_no_ticket_after_filter.
Print Assumptions C10_cannot_claim.
Print Assumptions C10_blacklisted_have_nothing_confirmed.
Print Assumptions C10_from_deployment.
Print Assumptions C10_unblacklist_frame.
Print Assumptions C10_nonvacuous.
Print Assumptions C10_blacklisted_have_nothing_confirmed_gt.
Print Assumptions C10_from_deployment_gt.
Print Assumptions C10_gt_nonvacuous.
Print Assumptions C10_blacklist_endpoint_any_contract.
Print Assumptions C10_blacklisted_have_nothing_confirmed_nft.
Print Assumptions C10_blacklisted_have_nothing_confirmed_ngt.
Print Assumptions C10_from_deployment_nft.
Print Assumptions C10_from_deployment_ngt.
Print Assumptions C10_ngt_nonvacuous.
