(** * C20 - Emitted events carry exactly the quantities that changed.
    Every event is [name, (caller, round, epoch) topics, (caller, round, epoch, payload...)];
    [event_hdr e] is those six numbers of the transaction's environment. *)
From LP Require Import Proofs.Tactics Proofs.LedgerBase Proofs.Resume Proofs.Frames Proofs.Settle Proofs.Confirm Proofs.Events Proofs.Examples Proofs.Events2.
Open Scope N_scope.

Theorem C20_confirm : forall e w n w',
  pay_wf (pay e) -> confirm_tickets e w n = Ok w' ->
  exists total, get_total_number_of_tickets_for_address (st w) (caller e) = Ok total /\
  evs w' = ev EvConfirm (event_hdr e ++ [n; confirmed (st w) (caller e) + n; total; pay_token (st w); 0; price (st w) * n]) :: evs w.
Proof. exact confirm_event. Qed.

Theorem C20_set_price : forall e w t a w',
  set_ticket_price e w t a = Ok w' -> evs w' = ev EvSetPrice (event_hdr e ++ [t; 0; a]) :: evs w.
Proof. exact set_price_event. Qed.

(** refunds at claim: one event with the tickets refunded and the exact amount moved (see
    C09_settlement for the matching balance change) *)
Theorem C20_claim_refund : forall e w w' wins,
  settle_tickets e w = Ok (w', wins) ->
  let s := st w in let a := caller e in
  range s a <> None /\ wins = winning_of s a /\ wins <= confirmed s a /\
  range (st w') a = None /\ confirmed (st w') a = 0 /\ claimed (st w') a = true /\
  nr_winning (st w') = nr_winning s - wins /\ (0 < wins -> wins <= nr_winning s) /\
  (forall x, x <> a -> range (st w') x = range s x /\ confirmed (st w') x = confirmed s x /\
                       claimed (st w') x = claimed s x) /\
  tf (st w') = tf s /\ total_claimable (st w') = total_claimable s /\ claimed_balance (st w') = claimed_balance s /\
  bal w' = (if 0 <? confirmed s a - wins
            then bal_after (bal w) sc_addr a (pay_token s) 0 (price s * (confirmed s a - wins)) else bal w) /\
  evs w' = (if 0 <? confirmed s a - wins
            then [{| ev_name := EvRefund; ev_nums := event_hdr e ++ [confirmed s a - wins; pay_token s; 0; price s * (confirmed s a - wins)] |}]
            else []) ++ evs w.
Proof. exact settle_spec. Qed.

(** refunds at blacklisting: one event per refunded participant, in list order, each with that
    participant's confirmed tickets and price x confirmed *)
Theorem C20_blacklist_refunds : forall e l w w',
  blacklist_loop e w l = Ok w' ->
  NoDup l /\ (forall a, In a l -> blacklisted (st w) a = false /\ range (st w) a <> None) /\
  evs w' = rev (flat_map (refund_ev e (st w)) l) ++ evs w /\
  (forall a, In a l -> confirmed (st w') a = 0 /\ blacklisted (st w') a = true) /\
  (forall x, ~ In x l -> confirmed (st w') x = confirmed (st w) x /\ blacklisted (st w') x = blacklisted (st w) x) /\
  range (st w') = range (st w) /\ tf (st w') = tf (st w).
Proof. exact blacklist_loop_events. Qed.

(** completion events of the multi-call operations: exactly one when the call completes, carrying
    the tickets left / the number of winners; none on interrupted calls *)
Theorem C20_filter : forall e b w w' x,
  filter_tickets e b w = Ok (w', x) ->
  (x = 0 /\ evs w' = ev EvFilterDone (event_hdr e ++ [last_ticket_id (st w')]) :: evs w) \/
  (x = 1 /\ evs w' = evs w).
Proof. exact filter_events. Qed.
Theorem C20_select : forall (H : list N -> list N) e b w w' x,
  select_winners H e b w = Ok (w', x) ->
  (x = 0 /\ evs w' = ev EvSelectDone (event_hdr e ++ [nr_winning (st w)]) :: evs w) \/
  (x = 1 /\ evs w' = evs w).
Proof. exact select_events. Qed.

(** the distribution step: gt2 emits one completion event whose payload is the number of additional
    winners (= the growth of the winners counter); the v1 family emits none; none when interrupted *)
Theorem C20_distribute : forall (H : list N -> list N) v2 e b w w' x,
  distribute_guaranteed_tickets H v2 e b w = Ok (w', x) ->
  (x = 1 /\ evs w' = evs w) \/
  (x = 0 /\ evs w' = (if v2 then [ev EvDistributeDone (event_hdr e ++ [nr_winning (st w') - nr_winning (st w)])] else []) ++ evs w).
Proof. exact distribute_events. Qed.

(** v2 blacklisting / refunding a batch: the refund events of the common part (C20_blacklist_refunds),
    then - for addUsersToBlacklist - one event with the number and the list of participants;
    un-blacklisting: one event with the list *)
Theorem C20_v2_blacklist : forall e w l w' (with_event : bool),
  blacklist_endpoint Gt2 with_event e w l = Ok w' ->
  exists w1, add_users_to_blacklist e w l = Ok w1 /\
    evs w' = (if with_event then [ev EvBlacklist (event_hdr e ++ N.of_nat (length l) :: l)] else []) ++ evs w1.
Proof. exact blacklist_v2_event. Qed.

Theorem C20_v2_unblacklist : forall e w l w',
  unblacklist_endpoint Gt2 e w l = Ok w' ->
  exists w2, evs w' = ev EvUnblacklist (event_hdr e ++ N.of_nat (length l) :: l) :: evs w2 /\ evs w2 = evs w.
Proof. exact unblacklist_v2_event. Qed.

(** v2: allocation batch, schedule change, claim payout *)
Theorem C20_v2_add_tickets : forall e w l w',
  add_tickets_v2 e w l = Ok w' ->
  exists uc ta ga, evs w' = ev EvAddTickets (event_hdr e ++ [uc; ta; ga]) :: evs w.
Proof. exact add_tickets_v2_event. Qed.
Theorem C20_v2_schedule : forall e w l w',
  set_unlock_schedule_v2 e w l = Ok w' ->
  evs w' = ev EvSetSchedule (event_hdr e ++ N.of_nat (length l) :: flat_map (fun x => [fst x; snd x]) l) :: evs w.
Proof. exact set_schedule_v2_event. Qed.
Theorem C20_v2_claim_payout : forall e w w',
  claimed (st w) (caller e) = true ->
  claim_vested true e w = Ok w' ->
  (evs w' = evs w /\ bal w' = bal w) \/
  (exists amt, 0 < amt /\ evs w' = ev EvClaimTokens (event_hdr e ++ [lp_token (st w); 0; amt]) :: evs w /\
               bal w' = bal_after (bal w) sc_addr (caller e) (lp_token (st w)) 0 amt).
Proof. exact claim_vested_v2_events. Qed.

(** endpoints without events; and every transaction starts from an empty event list, a rejected one
    returns no world at all *)
Theorem C20_deposit_silent : forall e w n w', deposit_launchpad_tokens e w n = Ok w' -> evs w' = evs w.
Proof. exact deposit_no_event. Qed.
Theorem C20_withdraw_silent : forall e w w', claim_ticket_payment e w = Ok w' -> evs w' = evs w.
Proof. exact claim_ticket_payment_no_event. Qed.
Theorem C20_fresh_log : forall (H : list N -> list N) v e b sd w c,
  exec H v e b sd w c = exec H v e b sd (w <| evs := [] |>) c.
Proof. exact exec_clears_events. Qed.

Example C20_nonvacuous :
  let w1 := step_sha Base base_confirmed (mkenv 1 15 0 [], 5%nat, [], CBlacklist [2; 3]) in
  map ev_nums (evs w1) = [[1; 15; 0; 1; 15; 0; 2; 0; 0; 2000]; [1; 15; 0; 1; 15; 0; 2; 0; 0; 2000]] /\
  evs (step_sha Base base_confirmed (mkenv 2 20 0 [], 0%nat, [], CFilter)) = [] /\
  map ev_nums (evs (step_sha Base base_confirmed (mkenv 2 20 0 [], 9%nat, [], CFilter))) = [[2; 20; 0; 2; 20; 0; 4]].
Proof. vm_compute. repeat split. Qed.

Print Assumptions C20_confirm.
Print Assumptions C20_set_price.
Print Assumptions C20_claim_refund.
Print Assumptions C20_blacklist_refunds.
Print Assumptions C20_filter.
Print Assumptions C20_select.
Print Assumptions C20_distribute.
Print Assumptions C20_v2_blacklist.
Print Assumptions C20_v2_unblacklist.
Print Assumptions C20_v2_add_tickets.
Print Assumptions C20_v2_schedule.
Print Assumptions C20_v2_claim_payout.
Print Assumptions C20_deposit_silent.
Print Assumptions C20_withdraw_silent.
Print Assumptions C20_fresh_log.
Print Assumptions C20_nonvacuous.
