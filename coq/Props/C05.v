(** * C05 - Winner selection is a faithful, unbiased partial Fisher-Yates shuffle. *)
From Coq Require Import Permutation.
From LP Require Import Proofs.Tactics Proofs.FisherYates Proofs.Shuffle Proofs.Rng Proofs.Select Proofs.Examples.
Open Scope N_scope.

(** One step of the contract's sparse shuffle at position [i] with raw number [x]: the ticket picked
    is the one currently at position [i + (x mod (n - i + 1))] of the remaining array and the array
    evolves exactly as in the textbook algorithm ([pick] / [rest] on the explicit list). *)
Theorem C05_step_refines_textbook : forall n s i wins x,
  SInv n s i wins -> i <= n ->
  let arr := arr_of s i n in
  arr_of (sstep s i n x) (i + 1) n = rest arr x /\
  SInv n (sstep s i n x) (i + 1) (wins ++ [pick arr x]) /\
  status (sstep s i n x) = upd (status s) (pick arr x) true.
Proof. exact sstep_refines. Qed.

(** The completed [selectWinners] (any hash function, any seed, any budget, any state in which no
    selection has happened): the winning tickets are exactly the textbook Fisher-Yates winners on
    1..n for the raw numbers of the call's random stream; they are distinct tickets of 1..n. *)
Theorem C05_select_is_fisher_yates : forall (H : list N -> list N) e b w w' sd rest,
  op (st w) = OpNone -> seeds w = sd :: rest ->
  fresh_shuffle (st w) ->
  nr_winning (st w) <= last_ticket_id (st w) ->
  select_winners H e b w = Ok (w', 0) ->
  let k := N.to_nat (nr_winning (st w)) in
  let n := last_ticket_id (st w) in
  let words := rng_words H k {| r_seed := sd; r_index := 0 |} in
  let wins := fst (fy k (range_ids 1 n) words) in
  (forall t, status (st w') t = true <-> In t wins) /\
  NoDup wins /\ length wins = k /\ (forall t, In t wins -> 1 <= t <= n) /\
  fl_selected (st w') = true /\ nr_winning (st w') = nr_winning (st w) /\
  last_ticket_id (st w') = n /\
  claimable_payment (st w') = price (st w) * nr_winning (st w) /\
  bal w' = bal w /\ op (st w') = OpNone /\ seeds w' = rest.
Proof. exact select_winners_completed. Qed.

(** Distinct residue vectors give distinct ordered selections (one-to-one) ... *)
Theorem C05_injective : forall k arr os os',
  NoDup arr -> length arr = k -> length os = k -> length os' = k ->
  bounded k os -> bounded k os' ->
  fst (fy k arr os) = fst (fy k arr os') -> os = os'.
Proof. exact fy_injective. Qed.

(** ... and every ordered selection of distinct tickets is produced by a residue vector (onto). *)
Theorem C05_surjective : forall tgt arr,
  NoDup arr -> NoDup tgt -> incl tgt arr ->
  exists os, length os = length tgt /\
             (forall t, (t < length os)%nat -> nth t os 0 < N.of_nat (length arr - t)) /\
             fst (fy (length tgt) arr os) = tgt.
Proof. exact fy_surjective. Qed.

(** Symmetry: exchanging two tickets in the outcome corresponds to another residue vector, so under
    uniform residues every confirmed ticket is equally likely to win.  (The bias of reducing a
    32-bit word modulo the range is outside this statement, as in the property.) *)
Theorem C05_symmetric : forall k arr a b os,
  NoDup arr -> In a arr -> In b arr -> (k <= length arr)%nat -> length os = k ->
  exists os', length os' = k /\
              (forall t, (t < length os')%nat -> nth t os' 0 < N.of_nat (length arr - t)) /\
              fst (fy k arr os') = map (swap_ab a b) (fst (fy k arr os)).
Proof. exact fy_symmetric. Qed.

(** The raw numbers: the [8 m + t]-th number drawn from a fresh generator is the big-endian 4-byte
    word [t] of the seed hashed [m] times (for any hash function); a fresh generator takes its seed
    from the environment of the call that creates it and starts at index 0. *)
Theorem C05_word_stream : forall (H : list N -> list N) m sd t k, (t < 8)%nat -> (8 * m + t < k)%nat ->
  nth (8 * m + t) (rng_words H k {| r_seed := sd; r_index := 0 |}) 0 = word_at (iterH H m sd) (4 * N.of_nat t).
Proof. exact rng_word_stream. Qed.
Theorem C05_seed_from_first_call : forall w sd rest,
  seeds w = sd :: rest ->
  rng_default w = ({| r_seed := sd; r_index := 0 |}, w <| seeds := rest |> <| rlog := RFresh :: rlog w |>).
Proof. exact rng_default_fresh. Qed.

(** Non-vacuity / sanity: the model run on the twelve raw words of a recorded run. *)
Example C05_nonvacuous :
  fst (fy 3 (range_ids 1 6) [1; 3; 2]) = [2; 5; 1] /\
  get_winning_ticket_ids_for_address (st base_selected) 3 = [3; 4].
Proof. vm_compute. split; reflexivity. Qed.

Print Assumptions C05_step_refines_textbook.
Print Assumptions C05_select_is_fisher_yates.
Print Assumptions C05_injective.
Print Assumptions C05_surjective.
Print Assumptions C05_symmetric.
Print Assumptions C05_word_stream.
Print Assumptions C05_seed_from_first_call.
Print Assumptions C05_nonvacuous.
