(** * C11 - Guaranteed tickets are honoured, and only with the holder's own tickets.
    Proved: the per-participant step of the distribution (v2 and the repaired v1 family), for every
    state, base outcome and operation data; nothing is ever un-marked.  The lift to the whole loop
    (every listed participant is processed exactly once) and order independence are covered by the
    correspondence check and the twin runs only - see DESIGN.md. *)
From LP Require Import Proofs.Tactics Proofs.Shuffle Proofs.Frames Proofs.Guaranteed Proofs.Examples.
Open Scope N_scope.

(** v2: after processing participant [u] (range [f..la] holding at least its confirmed tickets) it
    holds at least min(qualified, confirmed) winning tickets; every newly marked ticket lies in that
    range; winners are only added; used + leftover reservations = all guarantees of [u] *)
Theorem C11_v2_step : forall s o u s' o' us f la,
  gt_user_step_v2 s o u = (s', o') ->
  uts s u = Some us -> range s u = Some (f, la) ->
  confirmed s u <= N.of_nat (length (range_ids f la)) ->
  let need := N.min (qualified_v2 (us_infos us) (confirmed s u)) (confirmed s u) in
  need <= count_winning s' (range_ids f la) /\
  (forall t, status s t = true -> status s' t = true) /\
  (forall t, ~ In t (range_ids f la) -> status s' t = status s t) /\
  (g_additional o' - g_additional o) + (g_leftover o' - g_leftover o) = sumN (map fst (us_infos us)) /\
  g_additional o <= g_additional o' /\ g_leftover o <= g_leftover o' /\
  count_winning s' (range_ids f la) = count_winning s (range_ids f la) + (g_additional o' - g_additional o) /\
  range s' = range s /\ confirmed s' = confirmed s /\ g_rng o' = g_rng o /\ g_offset o' = g_offset o.
Proof. exact gt_user_step_v2_spec. Qed.

(** v1 family (gt1, mig, lgt, ngt) *)
Theorem C11_v1_step : forall s o u s' o' us f la,
  gt_user_step_v1 s o u = (s', o') ->
  uts s u = Some us -> range s u = Some (f, la) ->
  let q := qualified_v1 us (min_conf s) (confirmed s u) in
  N.min q (N.of_nat (length (range_ids f la))) <= count_winning s' (range_ids f la) /\
  (forall t, status s t = true -> status s' t = true) /\
  (forall t, ~ In t (range_ids f la) -> status s' t = status s t) /\
  (g_additional o' - g_additional o) + (g_leftover o' - g_leftover o) = us_sg us + us_mg us /\
  g_additional o <= g_additional o' /\ g_leftover o <= g_leftover o' /\
  count_winning s' (range_ids f la) = count_winning s (range_ids f la) + (g_additional o' - g_additional o) /\
  range s' = range s /\ confirmed s' = confirmed s.
Proof. exact gt_user_step_v1_spec. Qed.

(** the top-up walk itself: marks exactly [rem - rem'] not-yet-winning tickets of the given ids and
    nothing else; stops when enough are marked or the ids are exhausted *)
Theorem C11_topup : forall ids s rem added s' rem' added',
  NoDup ids ->
  topup_v2 ids s rem added = (s', rem', added') ->
  rem' <= rem /\ added' = added + (rem - rem') /\
  count_winning s' ids = count_winning s ids + (rem - rem') /\
  (forall t, status s t = true -> status s' t = true) /\
  (forall t, ~ In t ids -> status s' t = status s t) /\
  (rem' = 0 \/ count_winning s' ids = N.of_nat (length ids)) /\
  range s' = range s /\ confirmed s' = confirmed s /\ uts s' = uts s /\ gt_users s' = gt_users s /\
  pos2id s' = pos2id s /\ nr_winning s' = nr_winning s /\ last_ticket_id s' = last_ticket_id s.
Proof. exact topup_v2_spec. Qed.

Theorem C11_never_unmarks : forall (v2 : bool) s o u (s' : state) (o' : gtop),
  (if v2 then gt_user_step_v2 s o u else gt_user_step_v1 s o u) = (s', o') ->
  forall t, status s t = true -> status s' t = true.
Proof. exact gt_user_step_status_mono. Qed.

Example C11_nonvacuous :
  qualified_v2 [(1, 2); (2, 5)] 3 = 1 /\ qualified_v2 [(1, 2); (2, 5)] 5 = 3 /\
  calc_v2 [(1, 2); (2, 5)] 2 = (1, 2) /\ calc_v2 [(3, 3)] 3 = (3, 0).
Proof. vm_compute. repeat split. Qed.

Print Assumptions C11_v2_step.
Print Assumptions C11_v1_step.
Print Assumptions C11_topup.
Print Assumptions C11_never_unmarks.
Print Assumptions C11_nonvacuous.
