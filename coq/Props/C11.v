(** * C11 - Guaranteed tickets are honoured, and only with the holder's own tickets.
    Proved: the per-participant step of the distribution (v2 and the repaired v1 family), for every
    state, base outcome and operation data; nothing is ever un-marked; the lift to the whole step:
    when [distributeGuaranteedTickets] (gt1 mig lgt gt2) or [secondarySelectionStep] (ngt) completes
    - in one call or after any number of interrupted calls by anybody - every listed holder has at
    least what it is owed among the tickets of its own range, whatever the order in which the
    unordered set yields the holders, and the first phase marks only tickets of holders' ranges. *)
From LP Require Import Proofs.Tactics Proofs.Loop Proofs.Resume Proofs.Shuffle Proofs.Frames Proofs.Guaranteed
  Proofs.Resume3 Proofs.GuaranteedLoop Proofs.Examples.
From LP Require Import Proofs.Resume Proofs.Filter Proofs.Select Proofs.Leftover Proofs.SetupGt Proofs.SetupNft Proofs.SetupNgt.
Open Scope N_scope.

(** v2: after processing participant [u] (range [f..la] holding at least its confirmed tickets) it
    holds at least min(qualified, confirmed) winning tickets; every newly marked ticket lies in that
    range; winners are only added; used + leftover reservations = all guarantees of [u] *)
Theorem C11_v2_step : forall s o u s' o' us f la,
  gt_user_step_v2 s o u = (s', o') ->
  uts s u = Some us -> range s u = Some (f, la) ->
  confirmed s u <= N.of_nat (length (range_ids f la)) ->
  let need := N.min (qualified_v2 (us_infos us) (confirmed s u)) (confirmed s u) in
  need <= count_winning s' (range_ids f la) /\
  (forall t, status s t = true -> status s' t = true) /\
  (forall t, ~ In t (range_ids f la) -> status s' t = status s t) /\
  (g_additional o' - g_additional o) + (g_leftover o' - g_leftover o) = sumN (map fst (us_infos us)) /\
  g_additional o <= g_additional o' /\ g_leftover o <= g_leftover o' /\
  count_winning s' (range_ids f la) = count_winning s (range_ids f la) + (g_additional o' - g_additional o) /\
  range s' = range s /\ confirmed s' = confirmed s /\ g_rng o' = g_rng o /\ g_offset o' = g_offset o.
Proof. exact gt_user_step_v2_spec. Qed.

(** v1 family (gt1, mig, lgt, ngt) *)
Theorem C11_v1_step : forall s o u s' o' us f la,
  gt_user_step_v1 s o u = (s', o') ->
  uts s u = Some us -> range s u = Some (f, la) ->
  let q := qualified_v1 us (min_conf s) (confirmed s u) in
  N.min q (N.of_nat (length (range_ids f la))) <= count_winning s' (range_ids f la) /\
  (forall t, status s t = true -> status s' t = true) /\
  (forall t, ~ In t (range_ids f la) -> status s' t = status s t) /\
  (g_additional o' - g_additional o) + (g_leftover o' - g_leftover o) = us_sg us + us_mg us /\
  g_additional o <= g_additional o' /\ g_leftover o <= g_leftover o' /\
  count_winning s' (range_ids f la) = count_winning s (range_ids f la) + (g_additional o' - g_additional o) /\
  range s' = range s /\ confirmed s' = confirmed s.
Proof. exact gt_user_step_v1_spec. Qed.

(** the top-up walk itself: marks exactly [rem - rem'] not-yet-winning tickets of the given ids and
    nothing else; stops when enough are marked or the ids are exhausted *)
Theorem C11_topup : forall ids s rem added s' rem' added',
  NoDup ids ->
  topup_v2 ids s rem added = (s', rem', added') ->
  rem' <= rem /\ added' = added + (rem - rem') /\
  count_winning s' ids = count_winning s ids + (rem - rem') /\
  (forall t, status s t = true -> status s' t = true) /\
  (forall t, ~ In t ids -> status s' t = status s t) /\
  (rem' = 0 \/ count_winning s' ids = N.of_nat (length ids)) /\
  range s' = range s /\ confirmed s' = confirmed s /\ uts s' = uts s /\ gt_users s' = gt_users s /\
  pos2id s' = pos2id s /\ nr_winning s' = nr_winning s /\ last_ticket_id s' = last_ticket_id s.
Proof. exact topup_v2_spec. Qed.

Theorem C11_never_unmarks : forall (v2 : bool) s o u (s' : state) (o' : gtop),
  (if v2 then gt_user_step_v2 s o u else gt_user_step_v1 s o u) = (s', o') ->
  forall t, status s t = true -> status s' t = true.
Proof. exact gt_user_step_status_mono. Qed.

(** the first phase of the step, completed: all holders honoured (the amount owed is computed from
    the state the step starts in), winners only added, every newly marked ticket lies in the range
    of a listed holder *)
Theorem C11_phase1 : forall v2 s0 b o s' o' n' b',
  NoDup (gt_users s0) -> sized v2 s0 ->
  run_while b (select_gt_body v2) (s0, o, N.of_nat (length (gt_users s0))) = Ok (s', o', n', true, b') ->
  (forall u, In u (gt_users s0) -> owed v2 s0 u <= own_winning s0 s' u) /\
  (forall t, status s0 t = true -> status s' t = true) /\
  (forall t, status s' t = true -> status s0 t = true \/
     exists u f la, In u (gt_users s0) /\ range s0 u = Some (f, la) /\ In t (range_ids f la)).
Proof. exact select_gt_loop_all_honoured. Qed.

(** the endpoint (gt1 mig lgt: [v2 = false], gt2: [v2 = true]), however it is interrupted *)
Theorem C11_distribute : forall (H : list N -> list N) v2 l w wk e b w',
  op (st w) = OpNone -> NoDup (gt_users (st w)) -> sized v2 (st w) ->
  after_interrupted (distribute_guaranteed_tickets H v2) l w = Some wk ->
  distribute_guaranteed_tickets H v2 e b wk = Ok (w', 0) ->
  (forall u, In u (gt_users (st w)) -> owed v2 (st w) u <= own_winning (st w) (st w') u) /\
  (forall t, status (st w) t = true -> status (st w') t = true).
Proof. exact distribute_honours_interrupted. Qed.

(** the combined step of ngt *)
Theorem C11_secondary : forall (H : list N -> list N) l w wk e b w',
  op (st w) = OpNone -> NoDup (gt_users (st w)) -> nft_disjoint w ->
  after_interrupted (secondary_selection_step H) l w = Some wk ->
  secondary_selection_step H e b wk = Ok (w', 0) ->
  (forall u, In u (gt_users (st w)) -> owed false (st w) u <= own_winning (st w) (st w') u) /\
  (forall t, status (st w) t = true -> status (st w') t = true).
Proof. exact secondary_honours_interrupted. Qed.

Example C11_nonvacuous :
  qualified_v2 [(1, 2); (2, 5)] 3 = 1 /\ qualified_v2 [(1, 2); (2, 5)] 5 = 3 /\
  calc_v2 [(1, 2); (2, 5)] 2 = (1, 2) /\ calc_v2 [(3, 3)] 3 = (3, 0).
Proof. vm_compute. repeat split. Qed.

(** Non-vacuity of the step theorems: a gt2 sale (3 winners, holders 2 and 3 with one guarantee each,
    participant 4 without), base selection done; holder 3 wins nothing in the base lottery; the
    distribution is interrupted after one iteration (resumed by somebody else) and completes:
    the hypotheses hold and holder 3 ends with winners of its own. *)
Example C11_nonvacuous_step :
  let s0 := st gt2_selected in
  op s0 = OpNone /\ gt_users s0 = [2; 3] /\
  map (owed true s0) (gt_users s0) = [1; 1] /\ map (own_winning s0 s0) (gt_users s0) = [1; 0] /\
  fl_additional (st gt2_half) = false /\ fl_additional (st gt2_done) = true /\
  map (own_winning s0 (st gt2_done)) (gt_users s0) = [1; 2] /\
  nr_winning s0 = 1 /\ nr_winning (st gt2_done) = 3.
Proof. vm_compute. repeat split. Qed.

(** ** from deployment: for every set-up history (allocations with guarantees, blacklisting,
    un-blacklisting, ...) and every interruption schedule of the three stages, every listed holder ends
    with at least the guaranteed tickets it qualifies for ([owed]) among its own tickets, and no ticket
    that won the base lottery is unmarked *)
Theorem C11_from_deployment : forall (H : list N -> list N) v v2 w0 lf wf ef bf w1 ls ws es bs w2 sd rest ld wd ed bd w3,
  guar v -> setup_reach_gt H v w0 ->
  after_interrupted filter_tickets lf w0 = Some wf -> filter_tickets ef bf wf = Ok (w1, 0) ->
  seeds w1 = sd :: rest ->
  after_interrupted (select_winners H) ls w1 = Some ws -> select_winners H es bs ws = Ok (w2, 0) ->
  after_interrupted (distribute_guaranteed_tickets H v2) ld w2 = Some wd ->
  distribute_guaranteed_tickets H v2 ed bd wd = Ok (w3, 0) ->
  (forall u, In u (gt_users (st w2)) -> owed v2 (st w2) u <= own_winning (st w2) (st w3) u) /\
  (forall t, status (st w2) t = true -> status (st w3) t = true).
Proof.
  intros H v v2 w0 lf wf ef bf w1 ls ws es bs w2 sd rest ld wd ed bd w3 Hv Hr Haf Ef Hs Has Es Had Ed.
  destruct (deployed_pipeline_gt H v v2 w0 lf wf ef bf w1 ls ws es bs w2 sd rest ld wd ed bd w3 Hv Hr Haf Ef Hs Has Es Had Ed)
    as (l & _ & _ & A & B). exact (conj A B).
Qed.

Theorem C11_from_deployment_ngt : forall (H : list N -> list N) w0 lf wf ef bf w1 ls ws es bs w2 sd rest ld wd ed bd w3,
  setup_reach_ngt H w0 ->
  after_interrupted filter_tickets lf w0 = Some wf -> filter_tickets ef bf wf = Ok (w1, 0) ->
  seeds w1 = sd :: rest ->
  after_interrupted (select_winners H) ls w1 = Some ws -> select_winners H es bs ws = Ok (w2, 0) ->
  after_interrupted (secondary_selection_step H) ld w2 = Some wd ->
  secondary_selection_step H ed bd wd = Ok (w3, 0) ->
  (forall u, In u (gt_users (st w2)) -> owed false (st w2) u <= own_winning (st w2) (st w3) u) /\
  (forall t, status (st w2) t = true -> status (st w3) t = true).
Proof.
  intros H w0 lf wf ef bf w1 ls ws es bs w2 sd rest ld wd ed bd w3 Hr Haf Ef Hs Has Es Had Ed.
  destruct (deployed_pipeline_ngt H w0 lf wf ef bf w1 ls ws es bs w2 sd rest ld wd ed bd w3 Hr Haf Ef Hs Has Es Had Ed)
    as (l & _ & _ & A & B). exact (conj A B).
Qed.

Print Assumptions C11_v2_step.
Print Assumptions C11_v1_step.
Print Assumptions C11_topup.
Print Assumptions C11_never_unmarks.
Print Assumptions C11_phase1.
Print Assumptions C11_distribute.
Print Assumptions C11_secondary.
Print Assumptions C11_nonvacuous.
Print Assumptions C11_nonvacuous_step.
Print Assumptions C11_from_deployment.
Print Assumptions C11_from_deployment_ngt.
