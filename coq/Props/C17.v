(** * C17 - Sale terms are frozen once participants can commit funds. *)
From LP Require Import Proofs.Tactics Proofs.Gates Proofs.Frames Proofs.Permissions Proofs.Stage Proofs.Terms Proofs.Vesting Proofs.Examples.
Open Scope N_scope.

(** Every accepted call that is not one of the five term setters leaves all sale terms (launchpad
    token, tokens per ticket, payment token, price, NFT cost, vesting schedules, lock parameters,
    guarantee threshold) unchanged - for all eight contracts and any hash function.  So refunds
    and payouts are computed with the terms last written by a setter. *)
Theorem C17_only_setters_change_terms : forall (H : list N -> list N) v e b w c w' r,
  dispatch H v e b w c = Ok (w', r) -> term_setter c = false -> sale_terms (st w') = sale_terms (st w).
Proof. exact dispatch_keeps_terms. Qed.

(** the price setter: owner, AddTickets stage only, non-zero, valid token, never the launchpad token *)
Theorem C17_set_price : forall e w t a w',
  set_ticket_price e w t a = Ok w' ->
  is_owner e /\ get_launch_stage e (st w) = AddTickets /\ 0 < a /\ token_valid t = true /\
  (t <> egld -> lp_token (st w) <> t) /\
  st w' = st w <| pay_token := t |> <| price := a |> /\ bal w' = bal w.
Proof. exact set_price_effect. Qed.

(** tokens per ticket: owner, AddTickets stage, before the deposit, non-zero *)
Theorem C17_set_tpt : forall e w a w',
  set_launchpad_tokens_per_winning_ticket e w a = Ok w' ->
  is_owner e /\ get_launch_stage e (st w) = AddTickets /\ deposited (st w) = false /\ 0 < a /\
  st w' = st w <| tpt := a |> /\ bal w' = bal w.
Proof. exact set_tpt_effect. Qed.

(** NFT cost and the v2 schedule: owner and AddTickets stage only; v1 schedule: owner and only
    before confirmation starts or when none is set *)
Theorem C17_set_nft_cost : forall e w t n a w',
  set_nft_cost e w t n a = Ok w' -> is_owner e /\ get_launch_stage e (st w) = AddTickets.
Proof. exact gate_set_nft_cost. Qed.
Theorem C17_set_schedule_v2 : forall e w l w',
  set_unlock_schedule_v2 e w l = Ok w' -> is_owner e /\ get_launch_stage e (st w) = AddTickets.
Proof. exact gate_set_schedule_v2. Qed.
Theorem C17_set_schedule_v1 : forall e w a b c d p w',
  set_unlock_schedule_v1 e w a b c d p = Ok w' ->
  is_owner e /\ (round e < conf_start (st w) \/ sched1 (st w) = None).
Proof. exact gate_set_schedule_v1. Qed.

(** once the confirmation start round is reached the stage is not AddTickets, and (C06) it never
    is again: the AddTickets-gated setters are rejected from then on *)
Theorem C17_no_add_stage_after_confirmation_start : forall e s,
  conf_start s <= round e -> get_launch_stage e s <> AddTickets.
Proof. exact not_add_tickets_after_conf. Qed.

(** zero price, zero tokens per ticket and zero winners are never accepted, at deployment either *)
Theorem C17_deploy_nonzero : forall e lp tpt0 ptok pr nrw c ws cl add0 s,
  init_base e lp tpt0 ptok pr nrw c ws cl add0 = Ok s ->
  timeline_ok s /\ fl_filtered s = false /\ fl_selected s = false /\ fl_additional s = add0 /\
  0 < tpt s /\ 0 < price s /\ 0 < nr_winning s /\ token_valid (pay_token s) = true /\
  (pay_token s <> egld -> lp_token s <> pay_token s) /\ op s = OpNone /\ paused s = false /\ deposited s = false.
Proof. exact init_base_ok. Qed.

Example C17_nonvacuous :
  (exists w r, exec_sha Base (mkenv 1 5 0 []) 5 [] base0 (CSetPrice 2 77) = Ok (w, r)) /\
  exec_sha Base (mkenv 1 5 0 []) 5 [] base0 (CSetPrice 2 0) = Err FUser /\
  exec_sha Base (mkenv 1 5 0 []) 5 [] base0 (CSetPrice 1 5) = Err FUser /\
  exec_sha Base (mkenv 1 10 0 []) 5 [] base0 (CSetPrice 2 77) = Err FUser /\
  exec_sha Base (mkenv 1 5 0 []) 5 [] base_confirmed (CSetTpt 7) = Err FUser.
Proof. vm_compute. repeat split; eauto. Qed.

Print Assumptions C17_only_setters_change_terms.
Print Assumptions C17_set_price.
Print Assumptions C17_set_tpt.
Print Assumptions C17_set_nft_cost.
Print Assumptions C17_set_schedule_v2.
Print Assumptions C17_set_schedule_v1.
Print Assumptions C17_no_add_stage_after_confirmation_start.
Print Assumptions C17_deploy_nonzero.
Print Assumptions C17_nonvacuous.
