(** * C02 - Launchpad-token solvency: deposit covers every winner; owner gets only surplus.
    Proved: the deposit rule (iff), that the deposit is sized by the conserved total base winners +
    reserved tickets (C12), the entitlement tokens-per-ticket x winning and its splits (C16, C13),
    and both surplus formulas of the owner withdrawal; for the variants that pay winners at once
    (base, nft, mig, ngt before the NFT part): under the cover invariant tokens-per-ticket x
    remaining winners <= balance a winner's claim cannot fail, pays exactly tokens-per-ticket x
    winning and keeps the invariant ([C02_claim_covered]); the owner's withdrawal leaves exactly what
    the remaining winners are owed ([C02_owner_leaves_cover]); the same for the locked variants
    ([C02_claim_covered_locked]).  The cover invariant for the vested variants and its establishment
    at deposit time are monitored by the oracle and the correspondence (DESIGN.md). *)
From LP Require Import Proofs.Tactics Proofs.LedgerBase Proofs.Gates Proofs.Frames Proofs.Settle Proofs.Confirm Proofs.Reserve Proofs.Ledger
  Proofs.ClaimLedger Proofs.Lock Proofs.Vesting Proofs.Examples.
Open Scope N_scope.

(** the single deposit: accepted iff nothing was deposited yet and the call value is exactly one
    fungible transfer of the launchpad token of tokens-per-ticket x n, n being the deposit size *)
Theorem C02_deposit_iff : forall e w n w',
  pay_wf (pay e) ->
  (deposit_launchpad_tokens e w n = Ok w' <->
   deposited (st w) = false /\ pay e = [(lp_token (st w), 0, tpt (st w) * n)] /\ lp_token (st w) <> egld /\
   w' = set_st w (st w <| deposited := true |> <| total_deposited := tpt (st w) * n |>)).
Proof. exact deposit_iff. Qed.

(** the deposit size: base winners for the plain contracts, base winners + reserved tickets (the
    conserved total of C12) for every guaranteed-ticket contract *)
Theorem C02_deposit_size : forall v s,
  match v with Base | Lock | Nft => deposit_size v s = nr_winning s | _ => deposit_size v s = reserve_total s end.
Proof. exact deposit_size_is_reserve_total. Qed.

(** entitlement = winning tickets x tokens per ticket, handed to the variant's send function *)
Theorem C02_entitlement : forall sf e w a n,
  send_launchpad_tokens sf e w a n = if n =? 0 then Ok w else sf e w a (n * tpt (st w)).
Proof. exact send_launchpad_tokens_amount. Qed.

(** owner surplus, balance-based contracts: everything above tokens-per-ticket x unclaimed winners
    (never a winner's share: the withdrawal fails if the balance is below that) *)
Theorem C02_owner_surplus_common : forall e w w',
  claim_ticket_payment e w = Ok w' ->
  let s := st w in
  get_launch_stage e s = Claim /\
  claimable_payment (st w') = 0 /\
  exists b1, b1 = (if 0 <? claimable_payment s
                   then bal_after (bal w) sc_addr (caller e) (pay_token s) 0 (claimable_payment s) else bal w) /\
             tpt s * nr_winning s <= b1 sc_addr (lp_token s) 0 /\
             bal w' = (let extra := b1 sc_addr (lp_token s) 0 - tpt s * nr_winning s in
                       if 0 <? extra then bal_after b1 sc_addr (caller e) (lp_token s) 0 extra else b1).
Proof. exact claim_ticket_payment_spec. Qed.

(** owner surplus, vested contracts: deposit - (proceeds / price) x tokens-per-ticket, once *)
Theorem C02_owner_surplus_vested : forall e w w',
  claim_ticket_payment_gt e w = Ok w' ->
  let s := st w in
  get_launch_stage e s = Claim /\ claimable_payment (st w') = 0 /\ total_deposited (st w') = 0 /\
  exists b1, b1 = (if 0 <? claimable_payment s
                   then bal_after (bal w) sc_addr (caller e) (pay_token s) 0 (claimable_payment s) else bal w) /\
             bal w' = (let won := claimable_payment s / price s * tpt s in
                       if (total_deposited s =? 0) || (total_deposited s <=? won) then b1
                       else bal_after b1 sc_addr (caller e) (lp_token s) 0 (total_deposited s - won)).
Proof. exact claim_ticket_payment_gt_spec. Qed.

(** tokens per ticket cannot change after the deposit (C17) *)
Theorem C02_tpt_frozen : forall e w a w',
  set_launchpad_tokens_per_winning_ticket e w a = Ok w' ->
  is_owner e /\ get_launch_stage e (st w) = AddTickets /\ deposited (st w) = false /\ 0 < a.
Proof. exact gate_set_tpt. Qed.

(** a winner's (or loser's) claim during the claim period, variants with direct payout *)
Theorem C02_claim_covered : forall e w A,
  ClaimInv w A -> CoverInv w -> pay_token (st w) <> lp_token (st w) -> caller e <> sc_addr ->
  get_launch_stage e (st w) = Claim -> claimed (st w) (caller e) = false ->
  range (st w) (caller e) <> None ->
  exists w',
    claim_launchpad_tokens default_send e w = Ok w' /\ ClaimInv w' A /\ CoverInv w' /\
    let wins := winning_of (st w) (caller e) in
    nr_winning (st w') = nr_winning (st w) - wins /\
    bal w' (caller e) (lp_token (st w)) 0 = bal w (caller e) (lp_token (st w)) 0 + tpt (st w) * wins /\
    bal w' sc_addr (lp_token (st w)) 0 + tpt (st w) * wins = bal w sc_addr (lp_token (st w)) 0.
Proof. exact Cover_claim. Qed.

(** the locked variants: the entitlement leaves in two transfers (lock contract, winner) *)
Theorem C02_claim_covered_locked : forall e w A,
  ClaimInv w A -> CoverInv w -> pay_token (st w) <> lp_token (st w) -> caller e <> sc_addr ->
  lock_sc (st w) <> sc_addr -> lock_pct (st w) <= MAX_PERCENTAGE -> 0 < tpt (st w) ->
  get_launch_stage e (st w) = Claim -> claimed (st w) (caller e) = false ->
  range (st w) (caller e) <> None ->
  exists w',
    claim_launchpad_tokens send_locked_launchpad_tokens e w = Ok w' /\ ClaimInv w' A /\ CoverInv w' /\
    let wins := winning_of (st w) (caller e) in
    nr_winning (st w') = nr_winning (st w) - wins /\
    bal w' sc_addr (lp_token (st w)) 0 + tpt (st w) * wins = bal w sc_addr (lp_token (st w)) 0.
Proof. exact Cover_claim_locked. Qed.

(** the owner's withdrawal takes the surplus only: afterwards the balance is exactly what the
    winners who have not claimed yet are owed (zero once all have) *)
Theorem C02_owner_leaves_cover : forall e w w' A,
  ClaimInv w A -> caller e <> sc_addr -> pay_token (st w) <> lp_token (st w) ->
  claim_ticket_payment e w = Ok w' ->
  bal w' sc_addr (lp_token (st w)) 0 = tpt (st w) * nr_winning (st w) /\
  nr_winning (st w') = nr_winning (st w) /\ tpt (st w') = tpt (st w) /\ lp_token (st w') = lp_token (st w) /\
  bal w' (caller e) (lp_token (st w)) 0 + tpt (st w) * nr_winning (st w) =
  bal w (caller e) (lp_token (st w)) 0 + bal w sc_addr (lp_token (st w)) 0.
Proof. exact Cover_owner. Qed.

Example C02_nonvacuous :
  let w0 := step_sha Base base0 (mkenv 1 1 0 [], 100%nat, [], CAddTickets [(2, 3); (3, 2)]) in
  (exists w r, exec_sha Base (mkenv 1 2 0 [(1, 0, 200)]) 5 [] w0 CDeposit = Ok (w, r)) /\
  exec_sha Base (mkenv 1 2 0 [(1, 0, 201)]) 5 [] w0 CDeposit = Err FUser /\
  exec_sha Base (mkenv 1 2 0 [(1, 0, 199)]) 5 [] w0 CDeposit = Err FUser /\
  exec_sha Base (mkenv 1 2 0 [(4, 0, 200)]) 5 [] w0 CDeposit = Err FUser /\
  exec_sha Base (mkenv 1 2 0 [(1, 0, 200)]) 5 [] base_confirmed CDeposit = Err FUser.
Proof. vm_compute. repeat split; eauto. Qed.

Print Assumptions C02_deposit_iff.
Print Assumptions C02_deposit_size.
Print Assumptions C02_entitlement.
Print Assumptions C02_owner_surplus_common.
Print Assumptions C02_owner_surplus_vested.
Print Assumptions C02_tpt_frozen.
Print Assumptions C02_claim_covered.
Print Assumptions C02_claim_covered_locked.
Print Assumptions C02_owner_leaves_cover.
Print Assumptions C02_nonvacuous.
