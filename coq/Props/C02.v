(** * C02 - Launchpad-token solvency: deposit covers every winner; owner gets only surplus.
    Proved: the deposit rule (iff), that the deposit is sized by the conserved total base winners +
    reserved tickets (C12), the entitlement tokens-per-ticket x winning and its splits (C16, C13),
    and both surplus formulas of the owner withdrawal; for the variants that pay winners at once
    (base, nft, mig, ngt before the NFT part): under the cover invariant tokens-per-ticket x
    remaining winners <= balance a winner's claim cannot fail, pays exactly tokens-per-ticket x
    winning and keeps the invariant ([C02_claim_covered]); the owner's withdrawal leaves exactly what
    the remaining winners are owed ([C02_owner_leaves_cover]); the same for the locked variants
    ([C02_claim_covered_locked]).  For the vested variants (gt1, gt2): the exact ledger [VInv]
    (balance = tokens-per-ticket x unsettled winners + what settled winners have not received yet +
    the owner's surplus) is established by the selection pipeline from an exact deposit
    ([C02_vested_pipeline]), kept by every vesting claim and by the owner's withdrawal, which pay
    exactly ([C02_vested_claim], [C02_vested_owner]); neither can fail for lack of tokens
    ([C02_vested_claim_live], [C02_vested_owner_live]) and nothing is left at the end
    ([C02_vested_drained]). *)
From LP Require Import Proofs.Tactics Proofs.LedgerBase Proofs.Gates Proofs.Frames Proofs.Settle Proofs.Confirm Proofs.Reserve Proofs.Ledger
  Proofs.ClaimLedger Proofs.Lock Proofs.Vesting Proofs.Examples
  Proofs.Resume Proofs.Leftover Proofs.Lifecycle Proofs.VestedCover Proofs.VestedLifecycle Proofs.Setup Proofs.SetupGt Proofs.SetupVested Proofs.SetupCover Proofs.CoverSteps.
Open Scope N_scope.

(** the single deposit: accepted iff nothing was deposited yet and the call value is exactly one
    fungible transfer of the launchpad token of tokens-per-ticket x n, n being the deposit size *)
Theorem C02_deposit_iff : forall e w n w',
  pay_wf (pay e) ->
  (deposit_launchpad_tokens e w n = Ok w' <->
   deposited (st w) = false /\ pay e = [(lp_token (st w), 0, tpt (st w) * n)] /\ lp_token (st w) <> egld /\
   w' = set_st w (st w <| deposited := true |> <| total_deposited := tpt (st w) * n |>)).
Proof. exact deposit_iff. Qed.

(** the deposit size: base winners for the plain contracts, base winners + reserved tickets (the
    conserved total of C12) for every guaranteed-ticket contract *)
Theorem C02_deposit_size : forall v s,
  match v with Base | Lock | Nft => deposit_size v s = nr_winning s | _ => deposit_size v s = reserve_total s end.
Proof. exact deposit_size_is_reserve_total. Qed.

(** entitlement = winning tickets x tokens per ticket, handed to the variant's send function *)
Theorem C02_entitlement : forall sf e w a n,
  send_launchpad_tokens sf e w a n = if n =? 0 then Ok w else sf e w a (n * tpt (st w)).
Proof. exact send_launchpad_tokens_amount. Qed.

(** owner surplus, balance-based contracts: everything above tokens-per-ticket x unclaimed winners
    (never a winner's share: the withdrawal fails if the balance is below that) *)
Theorem C02_owner_surplus_common : forall e w w',
  claim_ticket_payment e w = Ok w' ->
  let s := st w in
  get_launch_stage e s = Claim /\
  claimable_payment (st w') = 0 /\
  exists b1, b1 = (if 0 <? claimable_payment s
                   then bal_after (bal w) sc_addr (caller e) (pay_token s) 0 (claimable_payment s) else bal w) /\
             tpt s * nr_winning s <= b1 sc_addr (lp_token s) 0 /\
             bal w' = (let extra := b1 sc_addr (lp_token s) 0 - tpt s * nr_winning s in
                       if 0 <? extra then bal_after b1 sc_addr (caller e) (lp_token s) 0 extra else b1).
Proof. exact claim_ticket_payment_spec. Qed.

(** owner surplus, vested contracts: deposit - (proceeds / price) x tokens-per-ticket, once *)
Theorem C02_owner_surplus_vested : forall e w w',
  claim_ticket_payment_gt e w = Ok w' ->
  let s := st w in
  get_launch_stage e s = Claim /\ claimable_payment (st w') = 0 /\ total_deposited (st w') = 0 /\
  exists b1, b1 = (if 0 <? claimable_payment s
                   then bal_after (bal w) sc_addr (caller e) (pay_token s) 0 (claimable_payment s) else bal w) /\
             bal w' = (let won := claimable_payment s / price s * tpt s in
                       if (total_deposited s =? 0) || (total_deposited s <=? won) then b1
                       else bal_after b1 sc_addr (caller e) (lp_token s) 0 (total_deposited s - won)).
Proof. exact claim_ticket_payment_gt_spec. Qed.

(** tokens per ticket cannot change after the deposit (C17) *)
Theorem C02_tpt_frozen : forall e w a w',
  set_launchpad_tokens_per_winning_ticket e w a = Ok w' ->
  is_owner e /\ get_launch_stage e (st w) = AddTickets /\ deposited (st w) = false /\ 0 < a.
Proof. exact gate_set_tpt. Qed.

(** a winner's (or loser's) claim during the claim period, variants with direct payout *)
Theorem C02_claim_covered : forall e w A,
  ClaimInv w A -> CoverInv w -> pay_token (st w) <> lp_token (st w) -> caller e <> sc_addr ->
  get_launch_stage e (st w) = Claim -> claimed (st w) (caller e) = false ->
  blacklisted (st w) (caller e) = false ->
  range (st w) (caller e) <> None ->
  exists w',
    claim_launchpad_tokens default_send e w = Ok w' /\ ClaimInv w' A /\ CoverInv w' /\
    let wins := winning_of (st w) (caller e) in
    nr_winning (st w') = nr_winning (st w) - wins /\
    bal w' (caller e) (lp_token (st w)) 0 = bal w (caller e) (lp_token (st w)) 0 + tpt (st w) * wins /\
    bal w' sc_addr (lp_token (st w)) 0 + tpt (st w) * wins = bal w sc_addr (lp_token (st w)) 0.
Proof. exact Cover_claim. Qed.

(** the locked variants: the entitlement leaves in two transfers (lock contract, winner) *)
Theorem C02_claim_covered_locked : forall e w A,
  ClaimInv w A -> CoverInv w -> pay_token (st w) <> lp_token (st w) -> caller e <> sc_addr ->
  lock_sc (st w) <> sc_addr -> lock_pct (st w) <= MAX_PERCENTAGE -> 0 < tpt (st w) ->
  get_launch_stage e (st w) = Claim -> claimed (st w) (caller e) = false ->
  blacklisted (st w) (caller e) = false ->
  range (st w) (caller e) <> None ->
  exists w',
    claim_launchpad_tokens send_locked_launchpad_tokens e w = Ok w' /\ ClaimInv w' A /\ CoverInv w' /\
    let wins := winning_of (st w) (caller e) in
    nr_winning (st w') = nr_winning (st w) - wins /\
    bal w' sc_addr (lp_token (st w)) 0 + tpt (st w) * wins = bal w sc_addr (lp_token (st w)) 0.
Proof. exact Cover_claim_locked. Qed.

(** the owner's withdrawal takes the surplus only: afterwards the balance is exactly what the
    winners who have not claimed yet are owed (zero once all have) *)
Theorem C02_owner_leaves_cover : forall e w w' A,
  ClaimInv w A -> caller e <> sc_addr -> pay_token (st w) <> lp_token (st w) ->
  claim_ticket_payment e w = Ok w' ->
  bal w' sc_addr (lp_token (st w)) 0 = tpt (st w) * nr_winning (st w) /\
  nr_winning (st w') = nr_winning (st w) /\ tpt (st w') = tpt (st w) /\ lp_token (st w') = lp_token (st w) /\
  bal w' (caller e) (lp_token (st w)) 0 + tpt (st w) * nr_winning (st w) =
  bal w (caller e) (lp_token (st w)) 0 + bal w sc_addr (lp_token (st w)) 0.
Proof. exact Cover_owner. Qed.

(** ** from deployment to the cover invariant, contracts that pay winners at once *)
Theorem C02_cover_from_deployment : forall (H : list N -> list N) v w0 lf wf ef bf w1 ls ws es bs w2 sd rest,
  plain v -> setup_reach H v w0 -> deposited (st w0) = true ->
  after_interrupted filter_tickets lf w0 = Some wf -> filter_tickets ef bf wf = Ok (w1, 0) ->
  seeds w1 = sd :: rest ->
  after_interrupted (select_winners H) ls w1 = Some ws -> select_winners H es bs ws = Ok (w2, 0) ->
  exists l : list (N * N),
    ClaimInv w2 (map fst l) /\ CoverInv w2 /\ pay_token (st w2) <> lp_token (st w2) /\
    bal w2 sc_addr (lp_token (st w2)) 0 = tpt (st w2) * nr_winning (st w0).
Proof. exact deployed_cover. Qed.

Theorem C02_cover_from_deployment_gt : forall (H : list N -> list N) v w0 lf wf ef bf w1 ls ws es bs w2 sd rest ld wd ed bd w3,
  guar v -> setup_reach_gt H v w0 ->
  deposited (st w0) = true -> 0 < price (st w0) ->
  after_interrupted filter_tickets lf w0 = Some wf -> filter_tickets ef bf wf = Ok (w1, 0) ->
  seeds w1 = sd :: rest ->
  after_interrupted (select_winners H) ls w1 = Some ws -> select_winners H es bs ws = Ok (w2, 0) ->
  after_interrupted (distribute_guaranteed_tickets H (vflag v)) ld w2 = Some wd ->
  distribute_guaranteed_tickets H (vflag v) ed bd wd = Ok (w3, 0) ->
  exists l : list (N * N), ClaimInv w3 (map fst l) /\ CoverInv w3.
Proof. exact deployed_cover_gt. Qed.

(** any order of winners' claims and owner withdrawals (contracts that pay at once; [locked]: the
    two-transfer payout of the locked variants) keeps both ledgers; once the owner has withdrawn, the
    balance is exactly tokens-per-ticket x the winning tickets not yet claimed - zero when all are *)
Theorem C02_any_order : forall locked w w' A,
  CInvs locked w A -> csteps locked w w' -> CInvs locked w' A /\ (CoverEq w -> CoverEq w').
Proof. exact Cover_steps. Qed.

Theorem C02_after_owner : forall locked e w w1 w' A,
  CInvs locked w A -> caller e <> sc_addr -> claim_ticket_payment e w = Ok w1 -> csteps locked w1 w' ->
  CInvs locked w' A /\ bal w' sc_addr (lp_token (st w')) 0 = tpt (st w') * nr_winning (st w') /\
  (nr_winning (st w') = 0 -> bal w' sc_addr (lp_token (st w')) 0 = 0).
Proof. exact Cover_after_owner. Qed.

Theorem C02_cover_from_deployment_to_the_end : forall (H : list N -> list N) v w0 lf wf ef bf w1 ls ws es bs w2 sd rest w3,
  plain v -> setup_reach H v w0 -> deposited (st w0) = true ->
  let locked := match v with Lock => true | _ => false end in
  (locked = true -> lock_ok w0) ->
  after_interrupted filter_tickets lf w0 = Some wf -> filter_tickets ef bf wf = Ok (w1, 0) ->
  seeds w1 = sd :: rest ->
  after_interrupted (select_winners H) ls w1 = Some ws -> select_winners H es bs ws = Ok (w2, 0) ->
  csteps locked w2 w3 ->
  exists l : list (N * N),
    CInvs locked w3 (map fst l) /\
    (forall e w3' w4, caller e <> sc_addr -> claim_ticket_payment e w3 = Ok w3' -> csteps locked w3' w4 ->
       CInvs locked w4 (map fst l) /\ bal w4 sc_addr (lp_token (st w4)) 0 = tpt (st w4) * nr_winning (st w4) /\
       (nr_winning (st w4) = 0 -> bal w4 sc_addr (lp_token (st w4)) 0 = 0)).
Proof. exact deployed_cover_to_end. Qed.

(** ** the vested contracts (guaranteed-tickets, guaranteed-tickets-v2) *)

(** the ledger of the claim period, stated in full *)
Theorem C02_vested_ledger : forall v2 w A x, VInv v2 w A x ->
  bal w sc_addr (lp_token (st w)) 0 =
    tpt (st w) * nr_winning (st w) + sumN (map (outstanding (st w)) A) + surplus (st w) + x /\
  (forall a, claimed_balance (st w) a <= total_claimable (st w) a) /\
  (forall a, claimed (st w) a = false -> total_claimable (st w) a = 0).
Proof. intros v2 w A x Hv. exact (conj (vi_bal _ _ _ _ Hv) (conj (vi_le _ _ _ _ Hv) (vi_fresh _ _ _ _ Hv))). Qed.

(** established by the pipeline, whatever the interruptions, from an exact deposit that covers
    base winners + reserved tickets *)
Theorem C02_vested_pipeline : forall (H : list N -> list N) v2 l w0 lf wf ef bf w1 ls ws es bs w2 sd rest ld wd ed bd w3,
  PreSel w0 l -> NoDup (gt_users (st w0)) ->
  after_interrupted filter_tickets lf w0 = Some wf -> filter_tickets ef bf wf = Ok (w1, 0) ->
  seeds w1 = sd :: rest ->
  after_interrupted (select_winners H) ls w1 = Some ws -> select_winners H es bs ws = Ok (w2, 0) ->
  after_interrupted (distribute_guaranteed_tickets H v2) ld w2 = Some wd ->
  distribute_guaranteed_tickets H v2 ed bd wd = Ok (w3, 0) ->
  sched_inv v2 (st w0) ->
  (forall a, total_claimable (st w0) a = 0) -> (forall a, claimed_balance (st w0) a = 0) ->
  0 < price (st w0) ->
  bal w0 sc_addr (lp_token (st w0)) 0 = total_deposited (st w0) ->
  tpt (st w0) * (nr_winning (st w0) + total_reserved v2 (st w0)) <= total_deposited (st w0) ->
  ClaimInv w3 (map fst l) /\ VInv v2 w3 (map fst l) 0 /\
  pay_token (st w3) = pay_token (st w0) /\ lp_token (st w3) = lp_token (st w0).
Proof. exact pipeline_gt_vested. Qed.

(** through the set-up history (allocation with guarantees, deposit, confirmations, pause, timeline,
    support and tokens-per-ticket transactions, in any order): the contract holds exactly the
    recorded deposit, which is tokens-per-ticket x (winners + reservations); nobody is credited *)
Theorem C02_setup_ledger : forall (H : list N -> list N) v w, guar v -> setup_reach_gt H v w ->
  bal w sc_addr (lp_token (st w)) 0 = total_deposited (st w) /\
  (if deposited (st w) then total_deposited (st w) = tpt (st w) * reserve_total (st w) else total_deposited (st w) = 0) /\
  total_guaranteed (st w) = total_reserved (vflag v) (st w) /\
  (forall a, total_claimable (st w) a = 0) /\ (forall a, claimed_balance (st w) a = 0).
Proof.
  intros H v w Hv Hr. pose proof (setup_reach_gt_LpInv H v w Hv Hr) as [Htc Hcb (Hres & _) Hbal Hd _ _]. auto.
Qed.

(** from deployment to the claim period: both ledgers *)
Theorem C02_vested_from_deployment : forall (H : list N -> list N) v w0 lf wf ef bf w1 ls ws es bs w2 sd rest ld wd ed bd w3,
  guar v -> setup_reach_gt H v w0 ->
  deposited (st w0) = true -> 0 < price (st w0) ->
  after_interrupted filter_tickets lf w0 = Some wf -> filter_tickets ef bf wf = Ok (w1, 0) ->
  seeds w1 = sd :: rest ->
  after_interrupted (select_winners H) ls w1 = Some ws -> select_winners H es bs ws = Ok (w2, 0) ->
  after_interrupted (distribute_guaranteed_tickets H (vflag v)) ld w2 = Some wd ->
  distribute_guaranteed_tickets H (vflag v) ed bd wd = Ok (w3, 0) ->
  exists l : list (N * N), ClaimInv w3 (map fst l) /\ VInv (vflag v) w3 (map fst l) 0 /\
                           pay_token (st w3) <> lp_token (st w3).
Proof. exact deployed_vested. Qed.

(** ... followed by vesting claims (first or later, anybody, any round) and owner withdrawals in any
    order: both ledgers keep holding; once everybody is settled and paid in full and the owner has
    withdrawn, the contract holds neither payment tokens nor launchpad tokens *)
Theorem C02_vested_any_order : forall v2 w w' A x,
  ClaimInv w A -> VInv v2 w A x -> pay_token (st w) <> lp_token (st w) -> vsteps v2 w w' ->
  ClaimInv w' A /\ VInv v2 w' A x /\ pay_token (st w') <> lp_token (st w') /\ lp_token (st w') = lp_token (st w).
Proof. exact VInv_steps. Qed.

Theorem C02_vested_from_deployment_to_the_end : forall (H : list N -> list N) v w0 lf wf ef bf w1 ls ws es bs w2 sd rest ld wd ed bd w3 w4,
  guar v -> setup_reach_gt H v w0 ->
  deposited (st w0) = true -> 0 < price (st w0) ->
  after_interrupted filter_tickets lf w0 = Some wf -> filter_tickets ef bf wf = Ok (w1, 0) ->
  seeds w1 = sd :: rest ->
  after_interrupted (select_winners H) ls w1 = Some ws -> select_winners H es bs ws = Ok (w2, 0) ->
  after_interrupted (distribute_guaranteed_tickets H (vflag v)) ld w2 = Some wd ->
  distribute_guaranteed_tickets H (vflag v) ed bd wd = Ok (w3, 0) ->
  vsteps (vflag v) w3 w4 ->
  exists l : list (N * N),
    ClaimInv w4 (map fst l) /\ VInv (vflag v) w4 (map fst l) 0 /\
    ((forall a, In a (map fst l) -> confirmed (st w4) a = 0) -> claimable_payment (st w4) = 0 ->
     nr_winning (st w4) = 0 -> (forall a, In a (map fst l) -> outstanding (st w4) a = 0) -> surplus (st w4) = 0 ->
     bal w4 sc_addr (pay_token (st w4)) 0 = 0 /\ bal w4 sc_addr (lp_token (st w4)) 0 = 0).
Proof. exact deployed_vested_drained. Qed.

(** any claim (first or later, any round): both ledgers are kept; the caller receives exactly the
    decrease of what the contract owes them *)
Theorem C02_vested_claim : forall v2 e w w' A x,
  ClaimInv w A -> VInv v2 w A x -> pay_token (st w) <> lp_token (st w) -> caller e <> sc_addr ->
  claim_vested v2 e w = Ok w' ->
  ClaimInv w' A /\ VInv v2 w' A x /\ lp_token (st w') = lp_token (st w) /\
  exists paid,
    bal w' sc_addr (lp_token (st w)) 0 + paid = bal w sc_addr (lp_token (st w)) 0 /\
    bal w' (caller e) (lp_token (st w)) 0 = bal w (caller e) (lp_token (st w)) 0 + paid /\
    owed_to (st w) (caller e) = owed_to (st w') (caller e) + paid.
Proof. exact VCover_claim. Qed.

(** the owner's withdrawal: exactly the surplus, once *)
Theorem C02_vested_owner : forall v2 e w w' A x,
  ClaimInv w A -> VInv v2 w A x -> pay_token (st w) <> lp_token (st w) -> caller e <> sc_addr ->
  claim_ticket_payment_gt e w = Ok w' ->
  VInv v2 w' A x /\ surplus (st w') = 0 /\ lp_token (st w') = lp_token (st w) /\
  bal w' sc_addr (lp_token (st w)) 0 + surplus (st w) = bal w sc_addr (lp_token (st w)) 0 /\
  bal w' (caller e) (lp_token (st w)) 0 = bal w (caller e) (lp_token (st w)) 0 + surplus (st w).
Proof. exact VCover_owner. Qed.

(** no lack of tokens: a first claim in the claim period, and a later claim of a winner who is not
    yet paid in full and has not received more than is released now, succeed; so does the owner *)
Theorem C02_vested_claim_live : forall v2 e w A x,
  ClaimInv w A -> VInv v2 w A x -> pay_token (st w) <> lp_token (st w) -> caller e <> sc_addr ->
  (v2 = true -> paused (st w) = false) ->
  (claimed (st w) (caller e) = false -> get_launch_stage e (st w) = Claim /\ range (st w) (caller e) <> None) ->
  (claimed (st w) (caller e) = true -> 0 < total_claimable (st w) (caller e) ->
   claimed_balance (st w) (caller e) < total_claimable (st w) (caller e) /\
   claimed_balance (st w) (caller e) <= vested_now v2 e (st w) (total_claimable (st w) (caller e))) ->
  exists w', claim_vested v2 e w = Ok w'.
Proof. exact VCover_claim_live. Qed.

Theorem C02_vested_owner_live : forall v2 e w A x,
  ClaimInv w A -> VInv v2 w A x -> pay_token (st w) <> lp_token (st w) -> caller e <> sc_addr ->
  get_launch_stage e (st w) = Claim ->
  exists w', claim_ticket_payment_gt e w = Ok w'.
Proof. exact VCover_owner_live. Qed.

Theorem C02_vested_drained : forall v2 w A x,
  VInv v2 w A x -> nr_winning (st w) = 0 -> (forall a, In a A -> outstanding (st w) a = 0) -> surplus (st w) = 0 ->
  bal w sc_addr (lp_token (st w)) 0 = x.
Proof. exact VCover_drained. Qed.

(** a concrete gt2 sale meets the invariant at the start of its claim period *)
Example C02_vested_nonvacuous :
  VInv true gt2_done [2; 3; 4] 0 /\ get_launch_stage (mkenv 2 31 0 []) (st gt2_done) = Claim /\
  nr_winning (st gt2_done) = 3 /\
  (nr_winning (st gt2_claim1), total_claimable (st gt2_claim1) 2, claimed_balance (st gt2_claim1) 2,
   bal gt2_claim1 sc_addr (lp_token (st gt2_done)) 0) = (2, 100, 100, 200).
Proof. exact VInv_gt2_done. Qed.

Example C02_nonvacuous :
  let w0 := step_sha Base base0 (mkenv 1 1 0 [], 100%nat, [], CAddTickets [(2, 3); (3, 2)]) in
  (exists w r, exec_sha Base (mkenv 1 2 0 [(1, 0, 200)]) 5 [] w0 CDeposit = Ok (w, r)) /\
  exec_sha Base (mkenv 1 2 0 [(1, 0, 201)]) 5 [] w0 CDeposit = Err FUser /\
  exec_sha Base (mkenv 1 2 0 [(1, 0, 199)]) 5 [] w0 CDeposit = Err FUser /\
  exec_sha Base (mkenv 1 2 0 [(4, 0, 200)]) 5 [] w0 CDeposit = Err FUser /\
  exec_sha Base (mkenv 1 2 0 [(1, 0, 200)]) 5 [] base_confirmed CDeposit = Err FUser.
Proof. vm_compute. repeat split; eauto. Qed.

Print Assumptions C02_deposit_iff.
Print Assumptions C02_deposit_size.
Print Assumptions C02_entitlement.
Print Assumptions C02_owner_surplus_common.
Print Assumptions C02_owner_surplus_vested.
Print Assumptions C02_tpt_frozen.
Print Assumptions C02_claim_covered.
Print Assumptions C02_claim_covered_locked.
Print Assumptions C02_owner_leaves_cover.
Print Assumptions C02_cover_from_deployment.
Print Assumptions C02_cover_from_deployment_gt.
Print Assumptions C02_any_order.
Print Assumptions C02_after_owner.
Print Assumptions C02_cover_from_deployment_to_the_end.
Print Assumptions C02_vested_ledger.
Print Assumptions C02_vested_pipeline.
Print Assumptions C02_setup_ledger.
Print Assumptions C02_vested_from_deployment.
Print Assumptions C02_vested_any_order.
Print Assumptions C02_vested_from_deployment_to_the_end.
Print Assumptions C02_vested_claim.
Print Assumptions C02_vested_owner.
Print Assumptions C02_vested_claim_live.
Print Assumptions C02_vested_owner_live.
Print Assumptions C02_vested_drained.
Print Assumptions C02_vested_nonvacuous.
Print Assumptions C02_nonvacuous.
