(** * C18 - Allocation gives each participant one fresh, disjoint, exact-size ticket range. *)
From LP Require Import Proofs.Tactics Proofs.Filter Proofs.Alloc Proofs.Gates Proofs.Examples
  Proofs.Confirm Proofs.Setup Proofs.SetupGt Proofs.SetupNft Proofs.SetupNgt Proofs.SetupAll.
Open Scope N_scope.

(** one allocation: accepted iff the participant has no range yet (a second listing, within or
    across calls, is rejected) and the id space is not exhausted; the range is [last+1, last+n] *)
Theorem C18_one : forall s a n s',
  n < usize_lim ->
  (try_create_tickets s a n = Ok s' <->
   0 < n /\ range s a = None /\ last_ticket_id s + 1 < u64_lim - 1 - n /\ s' = alloc_one s a n).
Proof. exact try_create_tickets_iff. Qed.

(** a batch: participants are distinct and new, ranges are consecutive in order, total tickets grow
    by the sum of the counts, nobody else's range changes *)
Theorem C18_batch : forall l s s',
  add_tickets_loop s l = Ok s' ->
  s' = alloc_all s l /\ NoDup (map fst l) /\ (forall a, In a (map fst l) -> range s a = None) /\
  last_ticket_id s' = last_ticket_id s + sumN (map snd l) /\
  (forall x, ~ In x (map fst l) -> range s' x = range s x) /\
  (forall pre a n post, l = pre ++ (a, n) :: post ->
     range s' a = Some (last_ticket_id s + sumN (map snd pre) + 1, last_ticket_id s + sumN (map snd pre) + 1 + n - 1)).
Proof. exact add_tickets_loop_spec. Qed.

(** the allocation invariant used by C08 is preserved by every allocation (zero-size ones own no
    ticket and do not enter the chain) *)
Theorem C18_invariant : forall s l a n,
  Chain s (last_ticket_id s) 1 l -> Owned s 1 l -> NoDup (map fst l) ->
  (forall x, In x (map fst l) -> range s x <> None) -> range s a = None ->
  let s' := alloc_one s a n in
  let l' := if 0 <? n then l ++ [(a, n)] else l in
  Chain s' (last_ticket_id s') 1 l' /\ Owned s' 1 l' /\ NoDup (map fst l') /\
  (forall x, In x (map fst l') -> range s' x <> None).
Proof. exact alloc_one_inv. Qed.

(** v2 limits: a zero allowance is skipped; otherwise the participant is not a contract, gets at
    most 255 tickets and 10 guarantee entries, each guarantee is at most its threshold, the
    reservation never exceeds the remaining base winners *)
Theorem C18_v2_limits : forall s tw tg uc ta ga buyer allowance infos acc',
  add_one_v2 (s, tw, tg, uc, ta, ga) (buyer, allowance, infos) = Ok acc' ->
  (allowance = 0 /\ acc' = (s, tw, tg, uc, ta, ga)) \/
  (0 < allowance /\ is_sc buyer = false /\ allowance <= MAX_TICKETS_ALLOWANCE /\
   N.of_nat (length infos) <= MAX_GUARANTEED_TICKETS_ENTRIES /\
   Forall (fun x => fst x <= snd x) infos /\ range s buyer = None /\
   (0 < infos_sum infos -> infos_sum infos <= tw) /\
   exists s', acc' = (s', (if 0 <? infos_sum infos then tw - infos_sum infos else tw),
                      (if 0 <? infos_sum infos then tg + infos_sum infos else tg),
                      uc + 1, ta + allowance, (if 0 <? infos_sum infos then ga + infos_sum infos else ga)) /\
              range s' buyer = Some (last_ticket_id s + 1, last_ticket_id s + 1 + allowance - 1) /\
              last_ticket_id s' = last_ticket_id s + allowance).
Proof. exact add_one_v2_limits. Qed.

(** allocation only in the AddTickets stage *)
Theorem C18_stage : forall e w l w', add_tickets e w l = Ok w' -> get_launch_stage e (st w) = AddTickets.
Proof. exact gate_add_tickets. Qed.

Example C18_nonvacuous :
  let w := step_sha Base base0 (mkenv 1 1 0 [], 100%nat, [], CAddTickets [(2, 3); (3, 2)]) in
  map (range (st w)) [2; 3; 4] = [Some (1, 3); Some (4, 5); None] /\ last_ticket_id (st w) = 5 /\
  exec_sha Base (mkenv 1 2 0 []) 5 [] w (CAddTickets [(2, 1)]) = Err FUser /\
  exec_sha Base (mkenv 1 2 0 []) 5 [] base0 (CAddTickets [(2, 1); (2, 1)]) = Err FUser.
Proof. vm_compute. repeat split. Qed.

(** an allocation of zero tickets is rejected (repair of finding F10: it used to store an empty range
    that no later step removes); consequently every accepted allocation transaction extends a set-up
    history in the sense of the "from deployment" theorems - their side condition "at least one ticket
    per listed participant" is implied by acceptance *)
Theorem C18_zero_rejected : forall s a n s', try_create_tickets s a n = Ok s' -> 0 < n.
Proof. exact try_create_positive. Qed.

Theorem C18_accepted_allocation_extends : forall (H : list N -> list N) v w e b sd la w' r,
  setup_reach H v w -> ~ In sc_addr (map fst la) -> pay_wf (pay e) -> caller e <> sc_addr ->
  exec H v e b sd w (CAddTickets la) = Ok (w', r) -> setup_reach H v w'.
Proof. exact setup_reach_add_any. Qed.

Theorem C18_accepted_allocation_extends_gt : forall (H : list N -> list N) v w e b sd lx w' r,
  setup_reach_gt H v w -> ~ In sc_addr (map fst (v1_sizes lx)) ->
  exec H v e b sd w (CAddTicketsV1 lx) = Ok (w', r) -> setup_reach_gt H v w'.
Proof. exact setup_reach_gt_add_any. Qed.

Theorem C18_accepted_allocation_extends_nft : forall (H : list N -> list N) w e b sd la w' r,
  setup_reach_nft H w -> ~ In sc_addr (map fst la) -> pay_wf (pay e) -> caller e <> sc_addr ->
  exec H Nft e b sd w (CAddTickets la) = Ok (w', r) -> setup_reach_nft H w'.
Proof. exact setup_reach_nft_add_any. Qed.

Theorem C18_accepted_allocation_extends_ngt : forall (H : list N -> list N) w e b sd lx w' r,
  setup_reach_ngt H w -> ~ In sc_addr (map fst (v1_sizes lx)) ->
  exec H Ngt e b sd w (CAddTicketsV1 lx) = Ok (w', r) -> setup_reach_ngt H w'.
Proof. exact setup_reach_ngt_add_any. Qed.

Print Assumptions C18_one.
Print Assumptions C18_zero_rejected.
Print Assumptions C18_accepted_allocation_extends.
Print Assumptions C18_accepted_allocation_extends_gt.
Print Assumptions C18_accepted_allocation_extends_nft.
Print Assumptions C18_accepted_allocation_extends_ngt.
Print Assumptions C18_batch.
Print Assumptions C18_invariant.
Print Assumptions C18_v2_limits.
Print Assumptions C18_stage.
Print Assumptions C18_nonvacuous.
