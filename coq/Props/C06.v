(** * C06 - Lifecycle phases are gated, ordered and never move backwards. *)
From LP Require Import Proofs.Tactics Proofs.Gates Proofs.Permissions Proofs.Frames Proofs.Stage Proofs.Examples.
Open Scope N_scope.

(** Along every history of accepted transactions at non-decreasing rounds (any contract, any hash
    function, any callers, budgets and arguments), starting from a state with
    confirmation < selection <= claim: the stage index never decreases, the timeline order is kept,
    and the step flags stay ordered (selected implies filtered). *)
Theorem C06_stage_never_decreases : forall (H : list N -> list N) v e w e2 w2,
  reaches H v e w e2 w2 -> timeline_ok (st w) ->
  stage_le (get_launch_stage e (st w)) (get_launch_stage e2 (st w2)) /\ timeline_ok (st w2) /\
  (flags_ord (st w) -> flags_ord (st w2)).
Proof. exact stage_never_decreases. Qed.

(** every accepted transaction is one of: no change of timeline / flags; a move of a start round
    that has not been reached to a round in the future (keeping the order); step flags only gained *)
Theorem C06_step : forall (H : list N -> list N) v e b sd w c w' r,
  exec H v e b sd w c = Ok (w', r) -> tl_step e (st w) (st w').
Proof. exact exec_tl_step. Qed.

(** the stage an accepted call of each kind needs (allocation and term setters: AddTickets;
    confirmations: Confirm; blacklist changes: before selection; selection steps: WinnerSelection;
    owner withdrawal and first claims: Claim) *)
Theorem C06_gate : forall (H : list N -> list N) v e b w c w' r l,
  dispatch H v e b w c = Ok (w', r) -> stage_needed v c = Some l -> In (get_launch_stage e (st w)) l.
Proof. exact dispatch_stage. Qed.

(** the timeline setters: accepted only from the owner, only while the old round is in the future,
    only to a round in the future, and only keeping confirmation < selection <= claim *)
Theorem C06_set_confirmation_start : forall e w r w',
  set_confirmation_period_start_round e w r = Ok w' ->
  is_owner e /\ round e < conf_start (st w) /\ round e < r /\
  st w' = st w <| conf_start := r |> /\ timeline_ok (st w') /\ bal w' = bal w.
Proof. exact gate_set_conf. Qed.
Theorem C06_set_selection_start : forall e w r w',
  set_winner_selection_start_round e w r = Ok w' ->
  is_owner e /\ round e < ws_start (st w) /\ round e < r /\
  st w' = st w <| ws_start := r |> /\ timeline_ok (st w') /\ bal w' = bal w.
Proof. exact gate_set_ws. Qed.
Theorem C06_set_claim_start : forall e w r w',
  set_claim_start_round e w r = Ok w' ->
  is_owner e /\ round e < claim_start (st w) /\ round e < r /\
  st w' = st w <| claim_start := r |> /\ timeline_ok (st w') /\ bal w' = bal w.
Proof. exact gate_set_claim. Qed.

(** the selection steps run once each, in order *)
Theorem C06_filter_once : forall e b w w' x,
  filter_tickets e b w = Ok (w', x) ->
  paused (st w) = false /\ get_launch_stage e (st w) = WinnerSelection /\ fl_filtered (st w) = false.
Proof. exact gate_filter. Qed.
Theorem C06_select_after_filter : forall (H : list N -> list N) e b w w' x,
  select_winners H e b w = Ok (w', x) ->
  paused (st w) = false /\ get_launch_stage e (st w) = WinnerSelection /\ owner_or_user e /\
  fl_filtered (st w) = true /\ fl_selected (st w) = false.
Proof. exact gate_select. Qed.
Theorem C06_distribute_after_select : forall (H : list N -> list N) v2 e b w w' x,
  distribute_guaranteed_tickets H v2 e b w = Ok (w', x) ->
  get_launch_stage e (st w) = WinnerSelection /\ fl_selected (st w) = true /\ fl_additional (st w) = false /\
  (v2 = true -> paused (st w) = false /\ owner_or_user e).
Proof. exact gate_distribute. Qed.

(** deployment establishes the order *)
Theorem C06_deploy : forall e lp tpt0 ptok pr nrw c ws cl add0 s,
  init_base e lp tpt0 ptok pr nrw c ws cl add0 = Ok s ->
  timeline_ok s /\ fl_filtered s = false /\ fl_selected s = false /\ fl_additional s = add0 /\
  0 < tpt s /\ 0 < price s /\ 0 < nr_winning s /\ token_valid (pay_token s) = true /\
  (pay_token s <> egld -> lp_token s <> pay_token s) /\ op s = OpNone /\ paused s = false /\ deposited s = false.
Proof. exact init_base_ok. Qed.

Example C06_nonvacuous :
  timeline_ok (st base0) /\
  map (fun r => stage_idx (get_launch_stage (mkenv 1 r 0 []) (st base_selected))) [0; 9; 10; 19; 20; 29; 30] = [0; 0; 1; 1; 2; 2; 3] /\
  map (fun r => stage_idx (get_launch_stage (mkenv 1 r 0 []) (st base_confirmed))) [29; 30; 1000] = [2; 2; 2].
Proof. split; [unfold timeline_ok; vm_compute; split; [reflexivity | discriminate] | vm_compute; split; reflexivity]. Qed.

Print Assumptions C06_stage_never_decreases.
Print Assumptions C06_step.
Print Assumptions C06_gate.
Print Assumptions C06_set_confirmation_start.
Print Assumptions C06_set_selection_start.
Print Assumptions C06_set_claim_start.
Print Assumptions C06_filter_once.
Print Assumptions C06_select_after_filter.
Print Assumptions C06_distribute_after_select.
Print Assumptions C06_deploy.
Print Assumptions C06_nonvacuous.
