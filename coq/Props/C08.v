(** * C08 - Filtering keeps exactly the confirmed tickets; ticket space stays consistent. *)
From LP Require Import Proofs.Tactics Proofs.Loop Proofs.Resume Proofs.Shuffle Proofs.Settle Proofs.Filter Proofs.ClaimLedger
  Proofs.Partition Proofs.Examples Proofs.Setup Proofs.SetupGt Proofs.SetupNft Proofs.SetupNgt Proofs.Tiling.
Open Scope N_scope.

(** [l] is the allocation in order: the chain of non-empty batches from ticket 1 to the last ticket,
    each owned by a distinct participant whose confirmed count is within the batch.  After the
    completed filter (any budget, any caller): participant number [i] owns exactly the block of
    [confirmed] tickets that follows the confirmed tickets of the participants before it (no range
    if it confirmed nothing), so the ranges are disjoint, contiguous and cover 1..total with
    total = sum of confirmed; the winners count is capped at total; nothing else changes. *)
Theorem C08_filter : forall e b w w' l,
  op (st w) = OpNone ->
  Chain (st w) (last_ticket_id (st w)) 1 l -> Owned (st w) 1 l -> NoDup (map fst l) ->
  Forall (fun x => confirmed (st w) (fst x) <= snd x /\ 0 < snd x) l ->
  filter_tickets e b w = Ok (w', 0) ->
  let s := st w in
  let total := sumN (confs s l) in
  last_ticket_id s = sumN (map snd l) /\
  last_ticket_id (st w') = total /\
  nr_winning (st w') = N.min (nr_winning s) total /\
  fl_filtered (st w') = true /\ op (st w') = OpNone /\
  (forall pre a n post, l = pre ++ (a, n) :: post ->
     range (st w') a = new_range (sumN (confs s pre)) (confirmed s a)) /\
  (forall x, ~ In x (map fst l) -> range (st w') x = range s x) /\
  confirmed (st w') = confirmed s /\ status (st w') = status s /\ pos2id (st w') = pos2id s /\
  bal w' = bal w.
Proof. exact filter_tickets_completed. Qed.

(** independent of the interruption schedule (C04) *)
Theorem C08_schedule_independent : forall l w wk e b,
  filter_op_ok (st w) -> after_interrupted filter_tickets l w = Some wk ->
  filter_tickets e b wk = filter_tickets e (total_budget l b) w.
Proof. exact filter_multi_resume. Qed.

(** the compaction function on an explicit allocation list, for any starting cursor *)
Theorem C08_compact_spec : forall l s f r,
  NoDup (map fst l) -> Owned s f l -> r < f ->
  Forall (fun x => confirmed s (fst x) <= snd x /\ 0 < snd x) l ->
  let '(s', f', r') := compact l s f r in
  f' = f + sumN (map snd l) /\
  f' - r' = f - r + sumN (confs s l) /\ r' < f' /\
  confirmed s' = confirmed s /\
  (forall x, ~ In x (map fst l) -> range s' x = range s x) /\
  (forall pre a n post, l = pre ++ (a, n) :: post ->
     range s' a = new_range (f - r - 1 + sumN (confs s pre)) (confirmed s a)) /\
  nr_winning s' = nr_winning s /\ last_ticket_id s' = last_ticket_id s /\ status s' = status s /\
  pos2id s' = pos2id s.
Proof. exact compact_spec. Qed.

(** Non-vacuity: allocation 3 + 2, confirmed 2 + 2: ranges become 1-2 and 3-4, total 4. *)
(** the same, as the tiling [Layout]: participant after participant, each range starts where the
    previous one ends, starting at ticket 1 *)
Theorem C08_layout : forall e b w w' l,
  op (st w) = OpNone ->
  Chain (st w) (last_ticket_id (st w)) 1 l -> Owned (st w) 1 l -> NoDup (map fst l) ->
  Forall (fun x => confirmed (st w) (fst x) <= snd x /\ 0 < snd x) l ->
  filter_tickets e b w = Ok (w', 0) ->
  let A := map fst l in
  Layout (range (st w')) (confirmed (st w')) 0 A /\ NoDup A /\
  last_ticket_id (st w') = sumN (map (confirmed (st w')) A).
Proof. exact filter_gives_layout. Qed.

(** consequences of the tiling, for any marking of tickets: ranges pairwise disjoint and inside
    1..total, a participant never holds more winning tickets than it confirmed, range size =
    confirmed, and the participants' winning tickets add up to the winning tickets among 1..total *)
Theorem C08_layout_facts : forall s A,
  Layout (range s) (confirmed s) 0 A -> NoDup A ->
  let total := sumN (map (confirmed s) A) in
  ranges_disjoint s A /\
  (forall a f la t, In a A -> range s a = Some (f, la) -> In t (range_ids f la) -> In t (range_ids 1 total)) /\
  (forall a, In a A -> winning_of s a <= confirmed s a) /\
  (forall a f la, In a A -> range s a = Some (f, la) -> N.of_nat (length (range_ids f la)) = confirmed s a) /\
  sumN (map (winning_of s) A) = count_winning s (range_ids 1 total).
Proof. exact layout_facts. Qed.

(** ** from deployment: for every set-up history of every contract and every interruption schedule of
    the filter, the participants' ranges tile 1..total in allocation order ([Layout]: participant [a]
    owns [new_range before (confirmed a)], i.e. nothing if it confirmed nothing or was blacklisted,
    else the [confirmed a] tickets after those of the participants before it), total = sum of confirmed
    tickets, nobody else owns a ticket, confirmations are untouched and the winners count is capped *)
Theorem C08_from_deployment : forall (H : list N -> list N) v w0 lf wf ef bf w1,
  plain v -> setup_reach H v w0 ->
  after_interrupted filter_tickets lf w0 = Some wf -> filter_tickets ef bf wf = Ok (w1, 0) ->
  exists l : list (N * N), let A := map fst l in
    Layout (range (st w1)) (confirmed (st w1)) 0 A /\ NoDup A /\
    last_ticket_id (st w1) = sumN (map (confirmed (st w1)) A) /\
    confirmed (st w1) = confirmed (st w0) /\
    (forall a, ~ In a A -> range (st w1) a = None) /\
    nr_winning (st w1) = N.min (nr_winning (st w0)) (sumN (map (confirmed (st w0)) A)).
Proof. exact deployed_tiling. Qed.

Theorem C08_from_deployment_gt : forall (H : list N -> list N) v w0 lf wf ef bf w1,
  guar v -> setup_reach_gt H v w0 ->
  after_interrupted filter_tickets lf w0 = Some wf -> filter_tickets ef bf wf = Ok (w1, 0) ->
  exists l, tiled w0 w1 l.
Proof. exact deployed_tiling_gt. Qed.

Theorem C08_from_deployment_nft : forall (H : list N -> list N) w0 lf wf ef bf w1,
  setup_reach_nft H w0 ->
  after_interrupted filter_tickets lf w0 = Some wf -> filter_tickets ef bf wf = Ok (w1, 0) ->
  exists l, tiled w0 w1 l.
Proof. exact deployed_tiling_nft. Qed.

Theorem C08_from_deployment_ngt : forall (H : list N -> list N) w0 lf wf ef bf w1,
  setup_reach_ngt H w0 ->
  after_interrupted filter_tickets lf w0 = Some wf -> filter_tickets ef bf wf = Ok (w1, 0) ->
  exists l, tiled w0 w1 l.
Proof. exact deployed_tiling_ngt. Qed.

Example C08_nonvacuous :
  let w := step_sha Base base_confirmed (mkenv 2 20 0 [], 50%nat, [], CFilter) in
  Chain (st base_confirmed) 5 1 [(2, 3); (3, 2)] /\
  map (range (st w)) [2; 3] = [Some (1, 2); Some (3, 4)] /\ last_ticket_id (st w) = 4 /\
  nr_winning (st w) = 2.
Proof.
  split.
  - econstructor; [vm_compute; discriminate | vm_compute; reflexivity | reflexivity |].
    econstructor; [vm_compute; discriminate | vm_compute; reflexivity | reflexivity |].
    apply (chain_nil _ 5).
  - vm_compute. repeat split.
Qed.

Print Assumptions C08_filter.
Print Assumptions C08_schedule_independent.
Print Assumptions C08_compact_spec.
Print Assumptions C08_layout.
Print Assumptions C08_layout_facts.
Print Assumptions C08_from_deployment.
Print Assumptions C08_from_deployment_gt.
Print Assumptions C08_from_deployment_nft.
Print Assumptions C08_from_deployment_ngt.
Print Assumptions C08_nonvacuous.
