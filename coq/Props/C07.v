(** * C07 - Confirmation needs exact payment and never exceeds the allocation.
    Only statements; every proof is [exact <lemma>]. *)
From LP Require Import Proofs.Tactics Proofs.Confirm Proofs.Examples.
Open Scope N_scope.

(** Acceptance condition and effect of the endpoint body, for every state, caller, amount. *)
Theorem C07_confirm_iff : forall e w n w',
  pay_wf (pay e) ->
  (confirm_tickets e w n = Ok w' <-> confirm_cond e (st w) n /\ w' = confirm_effect e w n).
Proof. exact confirm_iff. Qed.

(** The same for a whole transaction of any of the eight contracts, with any hash function:
    accepted iff the call value can be taken from the caller and the condition holds; the new world
    is the credited world with exactly [n] more confirmed tickets for the caller. *)
Theorem C07_exec_iff : forall (H : list N -> list N) v e b sd w n w' r,
  pay_wf (pay e) ->
  (exec H v e b sd w (CConfirm n) = Ok (w', r) <->
   exists w1, credit_payment (reset_outputs w sd) (caller e) (pay e) = Ok w1 /\
              confirm_cond e (st w) n /\ w' = confirm_effect e w1 n /\ r = []).
Proof. exact exec_confirm_iff. Qed.

(** Frame: nothing but the caller's confirmed count (and the event log) changes. *)
Theorem C07_frame : forall e w n,
  let w' := confirm_effect e w n in
  bal w' = bal w /\ rlog w' = rlog w /\ locks w' = locks w /\
  (forall a, a <> caller e -> confirmed (st w') a = confirmed (st w) a) /\
  confirmed (st w') (caller e) = confirmed (st w) (caller e) + n /\
  st w' = st w <| confirmed := confirmed (st w') |>.
Proof. exact confirm_effect_frame. Qed.

(** Exactness of the payment: the only accepted call values. *)
Theorem C07_payment : forall p tok amt,
  pay_wf p -> (egld_or_single_fungible_esdt p = Ok (tok, amt) <-> exact_payment p tok amt).
Proof. exact payment_spec. Qed.

(** Non-vacuity: in a concrete reachable state the condition holds and the call is accepted;
    one unit more or less is rejected. *)
Example C07_nonvacuous :
  let w := run_sha Base base0 [ (mkenv 1 1 0 [], 100%nat, [], CAddTickets [(2, 3); (3, 2)]);
                               (mkenv 1 2 0 [(1, 0, 200)], 100%nat, [], CDeposit) ] in
  (exists w', exec_sha Base (mkenv 2 10 0 [(0, 0, 2000)]) 0 [] w (CConfirm 2) = Ok (w', [])) /\
  exec_sha Base (mkenv 2 10 0 [(0, 0, 2001)]) 0 [] w (CConfirm 2) = Err FUser /\
  exec_sha Base (mkenv 2 10 0 [(0, 0, 1999)]) 0 [] w (CConfirm 2) = Err FUser /\
  exec_sha Base (mkenv 2 10 0 [(0, 0, 4000)]) 0 [] w (CConfirm 4) = Err FUser.
Proof. vm_compute. repeat split; eauto. Qed.

Print Assumptions C07_confirm_iff.
Print Assumptions C07_exec_iff.
Print Assumptions C07_frame.
Print Assumptions C07_payment.
Print Assumptions C07_nonvacuous.
