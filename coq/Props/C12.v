(** * C12 - Guarantee reserve is conserved; unused reserved tickets are re-drawn at random.
    Proved: base winners + reserved tickets is invariant under every allocation, blacklisting and
    un-blacklisting of both families; an un-blacklisting that would need more than the remaining
    base winners is rejected by a user error (never by an arithmetic panic, hence never by a wrap
    in deployment arithmetic); the deposit is sized by the conserved total; the distribution step
    hands out the whole pool of reserved tickets (used guarantees + leftover re-draws) unless every
    ticket already wins, each hand-out marking one existing non-winning ticket ([C12_pool]; the
    endpoint-level count min(base + reserved, n) is [C03_final]).  Along every set-up history from a
    deployment (allocation, deposit, confirmations, blacklisting, refunds, un-blacklisting, pause and
    configuration transactions in any order) the total stays the number configured at deployment
    ([C12_total_from_deployment]) and the recorded total of reserved tickets equals the sum of the
    listed holders' reservations, the list is duplicate-free, a blacklisted participant is not listed
    and an unlisted participant reserves nothing ([C12_counter_is_sum]). *)
From LP Require Import Proofs.Tactics Proofs.Loop Proofs.Shuffle Proofs.Gates Proofs.Frames Proofs.Settle Proofs.Reserve Proofs.GenTable
  Proofs.GuaranteedLoop Proofs.Leftover Proofs.Examples Proofs.Resume Proofs.Filter Proofs.Select Proofs.SetupGt Proofs.SetupVested.
Open Scope N_scope.

Theorem C12_add_v1 : forall e w l w',
  add_tickets_v1 e w l = Ok w' -> reserve_total (st w') = reserve_total (st w) /\ nr_winning (st w') <= nr_winning (st w).
Proof. exact add_tickets_v1_conserves. Qed.
Theorem C12_add_v2 : forall e w l w',
  add_tickets_v2 e w l = Ok w' -> reserve_total (st w') = reserve_total (st w) /\ nr_winning (st w') <= nr_winning (st w).
Proof. exact add_tickets_v2_conserves. Qed.
Theorem C12_blacklist_common : forall e w l w',
  add_users_to_blacklist e w l = Ok w' -> reserve_total (st w') = reserve_total (st w).
Proof. exact blacklist_common_keeps_reserve. Qed.
Theorem C12_blacklist_v1 : forall w l w',
  clear_gt_after_blacklist_v1 w l = Ok w' -> reserve_total (st w') = reserve_total (st w).
Proof. exact clear_gt_v1_conserves. Qed.
Theorem C12_blacklist_v2 : forall w l w',
  clear_gt_after_blacklist_v2 w l = Ok w' -> reserve_total (st w') = reserve_total (st w).
Proof. exact clear_gt_v2_conserves. Qed.
Theorem C12_unblacklist_v1 : forall w l w',
  unblacklist_gt_v1 w l = Ok w' -> reserve_total (st w') = reserve_total (st w).
Proof. exact unblacklist_gt_v1_conserves. Qed.
Theorem C12_unblacklist_v2 : forall w l w',
  unblacklist_gt_v2 w l = Ok w' -> reserve_total (st w') = reserve_total (st w).
Proof. exact unblacklist_gt_v2_conserves. Qed.

(** the un-blacklisting loops never fail with an arithmetic panic: the operation that cannot keep
    the total is rejected by the explicit check *)
Theorem C12_unblacklist_v1_no_panic : forall l acc, unbl_gt_loop_v1 acc l <> Err FPanic.
Proof. exact unbl_gt_loop_v1_no_panic. Qed.
Theorem C12_unblacklist_v2_no_panic : forall l acc, unbl_gt_loop_v2 acc l <> Err FPanic.
Proof. exact unbl_gt_loop_v2_no_panic. Qed.

(** the deposit of the guaranteed-ticket contracts is sized by that total *)
Theorem C12_deposit_size : forall v s,
  match v with Base | Lock | Nft => deposit_size v s = nr_winning s | _ => deposit_size v s = reserve_total s end.
Proof. exact deposit_size_is_reserve_total. Qed.

(** the release profile of every contract has overflow checks off (regenerated from the sources):
    this is why the absence of panics above matters *)
Theorem C12_release_profiles :
  [Gen.Generated.gen_overflow_checks_base; Gen.Generated.gen_overflow_checks_lock; Gen.Generated.gen_overflow_checks_nft;
   Gen.Generated.gen_overflow_checks_gt1; Gen.Generated.gen_overflow_checks_mig; Gen.Generated.gen_overflow_checks_lgt;
   Gen.Generated.gen_overflow_checks_ngt; Gen.Generated.gen_overflow_checks_gt2] = repeat (Some false) 8.
Proof. exact overflow_checks_all. Qed.

(** both phases of the distribution, completed: marked = reported; the pool (already handed out +
    leftover + reservations of the listed holders) is handed out completely, or every ticket wins *)
Theorem C12_pool : forall (H : list N -> list N) v2 b w o w1 o1 bb,
  let s0 := st w in
  let last := last_ticket_id s0 in
  let nrw := nr_winning s0 in
  NoDup (gt_users s0) -> sized v2 s0 -> within s0 last ->
  (exists dead, DInv last s0 (nrw + g_offset o) dead) ->
  count_winning s0 (range_ids 1 last) = nrw + g_additional o ->
  gt_distribution H v2 b w o = Ok (w1, o1, true, bb) ->
  count_winning (st w1) (range_ids 1 last) = nrw + g_additional o1 /\
  g_leftover o1 = 0 /\
  (g_additional o1 = pool0 v2 s0 o \/ (g_additional o1 <= pool0 v2 s0 o /\ last <= nrw + g_additional o1)) /\
  nr_winning (st w1) = nrw /\ last_ticket_id (st w1) = last.
Proof. exact gt_distribution_counts. Qed.

(** ** along the set-up history *)
Theorem C12_total_from_deployment : forall (H : list N -> list N) v w, guar v -> setup_reach_gt H v w ->
  exists e lp tpt0 ptok price0 nrw conf ws claim x s,
    deploy v e lp tpt0 ptok price0 nrw conf ws claim x = Ok s /\ reserve_total (st w) = nrw.
Proof. exact setup_reach_gt_total. Qed.

Theorem C12_counter_is_sum : forall (H : list N -> list N) v w, guar v -> setup_reach_gt H v w ->
  let s := st w in
  total_guaranteed s = total_reserved (vflag v) s /\ NoDup (gt_users s) /\
  (forall u, In u (gt_users s) -> range s u <> None) /\
  (forall u, ~ In u (gt_users s) -> reserved (vflag v) s u = 0) /\
  (forall u, blacklisted s u = true -> range s u <> None /\ ~ In u (gt_users s)).
Proof. intros H v w Hv Hr. exact (lp_res _ _ (setup_reach_gt_LpInv H v w Hv Hr)). Qed.

(** the last sentence of the property, from deployment: whatever the set-up history (allocations,
    blacklisting, un-blacklisting, ...) and the interruption schedule of the three stages, the final
    number of winners - reported and marked - is min(winners configured at deployment, confirmed
    tickets) *)
Theorem C12_final_from_deployment : forall (H : list N -> list N) v w0 lf wf ef bf w1 ls ws es bs w2 sd rest ld wd ed bd w3,
  guar v -> setup_reach_gt H v w0 ->
  after_interrupted filter_tickets lf w0 = Some wf -> filter_tickets ef bf wf = Ok (w1, 0) ->
  seeds w1 = sd :: rest ->
  after_interrupted (select_winners H) ls w1 = Some ws -> select_winners H es bs ws = Ok (w2, 0) ->
  after_interrupted (distribute_guaranteed_tickets H (vflag v)) ld w2 = Some wd ->
  distribute_guaranteed_tickets H (vflag v) ed bd wd = Ok (w3, 0) ->
  exists e lp tpt0 ptok price0 nrw conf wsr claim x s (l : list (N * N)),
    deploy v e lp tpt0 ptok price0 nrw conf wsr claim x = Ok s /\
    nr_winning (st w3) = N.min nrw (sumN (map (confirmed (st w0)) (map fst l))) /\
    count_winning (st w3) (range_ids 1 (sumN (map (confirmed (st w0)) (map fst l)))) = nr_winning (st w3).
Proof. exact deployed_final_winners. Qed.

Example C12_nonvacuous :
  match deploy Gt1 (mkenv 1 0 0 []) 1 100 0 1000 2 10 20 30 x0 with
  | Ok s0 =>
      let w0 := world0 s0 in
      let w1 := run_sha Gt1 w0 [ (mkenv 1 1 0 [], 9%nat, [], CAddTicketsV1 [(2, 2, 0, false)]);
                                 (mkenv 1 2 0 [], 9%nat, [], CBlacklist [2]);
                                 (mkenv 1 3 0 [], 9%nat, [], CAddTicketsV1 [(3, 2, 0, false); (4, 2, 0, false)]) ] in
      reserve_total (st w1) = 2 /\ nr_winning (st w1) = 0 /\
      exec_sha Gt1 (mkenv 1 4 0 []) 9 [] w1 (CUnblacklist [2]) = Err FUser
  | Err _ => False
  end.
Proof. vm_compute. repeat split. Qed.

Print Assumptions C12_add_v1.
Print Assumptions C12_add_v2.
Print Assumptions C12_blacklist_common.
Print Assumptions C12_blacklist_v1.
Print Assumptions C12_blacklist_v2.
Print Assumptions C12_unblacklist_v1.
Print Assumptions C12_unblacklist_v2.
Print Assumptions C12_unblacklist_v1_no_panic.
Print Assumptions C12_unblacklist_v2_no_panic.
Print Assumptions C12_deposit_size.
Print Assumptions C12_total_from_deployment.
Print Assumptions C12_counter_is_sum.
Print Assumptions C12_final_from_deployment.
Print Assumptions C12_release_profiles.
Print Assumptions C12_pool.
Print Assumptions C12_nonvacuous.
