(** * C01 - Ticket-payment solvency: the contract always holds exactly what it still owes.
    Proved here, for the model of all eight contracts:
    - the solvency invariant of the window in which confirmations exist and the selection is not
      complete ([PayInv]: holdings = price x sum of confirmed tickets) is preserved by every
      confirmation, by blacklisting, and by every operation that touches neither holdings nor
      confirmations nor price;
    - the exact amount every operation of the claim stage moves (participant: price x (confirmed -
      winning), C09; owner: the recorded proceeds = price x winners, once), and how the proceeds are
      recorded (C03 at base selection, [finish_gt] at the distribution step).
    - the claim period ([ClaimInv]: holdings = owner's not yet withdrawn proceeds + price x (confirmed -
      winning) of every participant who has not settled): established from [PayInv] when the
      selection is complete, preserved by every settlement and by the owner's withdrawal in any
      order; under it every settlement and the payment-token leg of the withdrawal *succeed* and pay
      exactly; when everybody has settled and the owner has withdrawn the holdings are zero.
    [C01_claim_start_from_layout] derives the per-participant hypotheses of [C01_claim_start] from the
    tiling the filter leaves ([C08_layout]) and the count of marked tickets ([C03_base], [C03_final]);
    what remains assumed is [PayInv] at that moment and proceeds = price x winners (C03).  Not covered: the NFT-fee share when the fee
    uses the same token (C14; oracle + balance correspondence). *)
From LP Require Import Proofs.Tactics Proofs.LedgerBase Proofs.Gates Proofs.Frames Proofs.Settle Proofs.Confirm Proofs.Ledger
  Proofs.ClaimLedger Proofs.Loop Proofs.Resume Proofs.FisherYates Proofs.Shuffle Proofs.Rng Proofs.Filter Proofs.Partition
  Proofs.Resume3 Proofs.GuaranteedLoop Proofs.Leftover Proofs.Lifecycle Proofs.Interleave Proofs.InterleaveGt Proofs.LifecycleNoisy Proofs.Setup Proofs.SetupPrice
  Proofs.SetupGt Proofs.SetupNft Proofs.SetupNgt Proofs.Examples.
Open Scope N_scope.

Theorem C01_confirm_keeps_solvency : forall (H : list N -> list N) v e b sd w n w' r A,
  pay_wf (pay e) -> caller e <> sc_addr ->
  PayInv w A ->
  exec H v e b sd w (CConfirm n) = Ok (w', r) ->
  PayInv w' (if mem (caller e) A then A else caller e :: A).
Proof. exact PayInv_confirm. Qed.

Theorem C01_blacklist_keeps_solvency : forall e w a w' A,
  a <> sc_addr -> PayInv w A -> bl_one e w a = Ok w' -> PayInv w' A.
Proof. exact PayInv_blacklist. Qed.

Theorem C01_frame : forall w w' A,
  PayInv w A ->
  bal w' sc_addr (pay_token (st w')) 0 = bal w sc_addr (pay_token (st w)) 0 ->
  price (st w') = price (st w) -> (forall a, confirmed (st w') a = confirmed (st w) a) ->
  PayInv w' A.
Proof. exact PayInv_frame. Qed.

(** the owner's withdrawal: the recorded proceeds of the payment token, exactly once *)
Theorem C01_owner_withdrawal : forall e w w',
  claim_ticket_payment e w = Ok w' ->
  let s := st w in
  get_launch_stage e s = Claim /\
  claimable_payment (st w') = 0 /\
  exists b1, b1 = (if 0 <? claimable_payment s
                   then bal_after (bal w) sc_addr (caller e) (pay_token s) 0 (claimable_payment s) else bal w) /\
             tpt s * nr_winning s <= b1 sc_addr (lp_token s) 0 /\
             bal w' = (let extra := b1 sc_addr (lp_token s) 0 - tpt s * nr_winning s in
                       if 0 <? extra then bal_after b1 sc_addr (caller e) (lp_token s) 0 extra else b1).
Proof. exact claim_ticket_payment_spec. Qed.

(** the additional winners add price x additional to the proceeds *)
Theorem C01_proceeds_of_distribution : forall w o,
  claimable_payment (st (finish_gt w o)) = claimable_payment (st w) + price (st w) * g_additional o /\
  nr_winning (st (finish_gt w o)) = nr_winning (st w) + g_additional o /\ bal (finish_gt w o) = bal w.
Proof. exact finish_gt_spec. Qed.

(** a participant's settlement moves exactly price x (confirmed - winning) (same statement as C09) *)
Theorem C01_participant_refund : forall e w w' wins,
  settle_tickets e w = Ok (w', wins) ->
  let s := st w in let a := caller e in
  range s a <> None /\ wins = winning_of s a /\ wins <= confirmed s a /\
  range (st w') a = None /\ confirmed (st w') a = 0 /\ claimed (st w') a = true /\
  nr_winning (st w') = nr_winning s - wins /\ (0 < wins -> wins <= nr_winning s) /\
  (forall x, x <> a -> range (st w') x = range s x /\ confirmed (st w') x = confirmed s x /\
                       claimed (st w') x = claimed s x) /\
  tf (st w') = tf s /\ total_claimable (st w') = total_claimable s /\ claimed_balance (st w') = claimed_balance s /\
  bal w' = (if 0 <? confirmed s a - wins
            then bal_after (bal w) sc_addr a (pay_token s) 0 (price s * (confirmed s a - wins)) else bal w) /\
  evs w' = (if 0 <? confirmed s a - wins
            then [{| ev_name := EvRefund; ev_nums := event_hdr e ++ [confirmed s a - wins; pay_token s; 0; price s * (confirmed s a - wins)] |}]
            else []) ++ evs w.
Proof. exact settle_spec. Qed.

(** ** the claim period *)
Theorem C01_claim_start : forall w A,
  PayInv w A ->
  (forall a, ~ In a A -> range (st w) a = None) ->
  (forall a, In a A -> winning_of (st w) a <= confirmed (st w) a) ->
  ranges_disjoint (st w) A ->
  nr_winning (st w) = sumN (map (winning_of (st w)) A) ->
  claimable_payment (st w) = price (st w) * nr_winning (st w) ->
  ClaimInv w A.
Proof. exact ClaimInv_start. Qed.

(** ... in particular from the tiling the filter leaves (C08_layout) and the count of marked tickets
    (C03_base / C03_final): no hypothesis about individual participants is left *)
Theorem C01_claim_start_from_layout : forall w A,
  PayInv w A -> Layout (range (st w)) (confirmed (st w)) 0 A ->
  (forall a, ~ In a A -> range (st w) a = None) ->
  count_winning (st w) (range_ids 1 (sumN (map (confirmed (st w)) A))) = nr_winning (st w) ->
  claimable_payment (st w) = price (st w) * nr_winning (st w) ->
  ClaimInv w A.
Proof. exact ClaimInv_from_layout. Qed.

(** a participant with tickets settles: the call cannot fail, pays exactly price x (confirmed -
    winning), keeps the invariant *)
Theorem C01_settle : forall e w A,
  ClaimInv w A -> range (st w) (caller e) <> None ->
  exists w' wins,
    settle_tickets e w = Ok (w', wins) /\ wins = winning_of (st w) (caller e) /\
    ClaimInv w' A /\
    bal w' = (if 0 <? due (st w) (caller e)
              then bal_after (bal w) sc_addr (caller e) (pay_token (st w)) 0 (price (st w) * due (st w) (caller e))
              else bal w) /\
    due (st w') (caller e) = 0 /\ winning_of (st w') (caller e) = 0 /\
    claimable_payment (st w') = claimable_payment (st w).
Proof. exact ClaimInv_settle. Qed.

(** the payment-token leg of the owner's withdrawal cannot fail and pays the recorded proceeds *)
Theorem C01_owner_leg : forall e w A,
  ClaimInv w A -> caller e <> sc_addr ->
  exists w1, pay_leg e w = Ok w1 /\ ClaimInv w1 A /\ claimable_payment (st w1) = 0 /\
    (exists s1, st w1 = st w <| claimable_payment := s1 |>) /\
    bal w1 = (if 0 <? claimable_payment (st w)
              then bal_after (bal w) sc_addr (caller e) (pay_token (st w)) 0 (claimable_payment (st w)) else bal w).
Proof. exact ClaimInv_pay_leg. Qed.

Theorem C01_owner : forall e w w' A,
  ClaimInv w A -> caller e <> sc_addr -> pay_token (st w) <> lp_token (st w) ->
  claim_ticket_payment e w = Ok w' ->
  ClaimInv w' A /\ claimable_payment (st w') = 0 /\
  bal w' (caller e) (pay_token (st w)) 0 = bal w (caller e) (pay_token (st w)) 0 + claimable_payment (st w).
Proof. exact ClaimInv_owner. Qed.

Theorem C01_owner_gt : forall e w w' A,
  ClaimInv w A -> caller e <> sc_addr -> pay_token (st w) <> lp_token (st w) ->
  claim_ticket_payment_gt e w = Ok w' ->
  ClaimInv w' A /\ claimable_payment (st w') = 0 /\
  bal w' (caller e) (pay_token (st w)) 0 = bal w (caller e) (pay_token (st w)) 0 + claimable_payment (st w).
Proof. exact ClaimInv_owner_gt. Qed.

(** any order of settlements and withdrawals *)
Theorem C01_any_order : forall w w' A, ClaimInv w A -> pay_steps w w' -> ClaimInv w' A.
Proof. exact ClaimInv_steps. Qed.

Theorem C01_drained : forall w A,
  ClaimInv w A -> (forall a, In a A -> confirmed (st w) a = 0) -> claimable_payment (st w) = 0 ->
  bal w sc_addr (pay_token (st w)) 0 = 0.
Proof. exact ClaimInv_drained. Qed.

(** ** end to end (contracts without an additional step: launchpad, launchpad-locked-tokens):
    from a well-formed state at the end of the confirmation window ([PreSel]: no pending operation,
    allocation chain, confirmations within allocations, nothing marked, [PayInv]) through
    filterTickets and selectWinners - each interrupted any number of times, by anybody, at any block -
    to the claim-period invariant; the ranges tile 1..total, the winners are the textbook
    Fisher-Yates winners on the words of the first selectWinners call's seed, proceeds = price x
    winners; then any order of settlements and withdrawals, and an empty till at the end. *)
Theorem C01_pipeline : forall (H : list N -> list N) l w0 lf wf ef bf w1 ls ws es bs w2 sd rest,
  PreSel w0 l ->
  after_interrupted filter_tickets lf w0 = Some wf -> filter_tickets ef bf wf = Ok (w1, 0) ->
  seeds w1 = sd :: rest ->
  after_interrupted (select_winners H) ls w1 = Some ws -> select_winners H es bs ws = Ok (w2, 0) ->
  let A := map fst l in
  let total := sumN (map (confirmed (st w0)) A) in
  let k := N.min (nr_winning (st w0)) total in
  let wins := fst (fy (N.to_nat k) (range_ids 1 total) (rng_words H (N.to_nat k) {| r_seed := sd; r_index := 0 |})) in
  ClaimInv w2 A /\
  Layout (range (st w2)) (confirmed (st w2)) 0 A /\ last_ticket_id (st w2) = total /\
  nr_winning (st w2) = k /\ (forall t, status (st w2) t = true <-> In t wins) /\ NoDup wins /\
  claimable_payment (st w2) = price (st w0) * k /\ confirmed (st w2) = confirmed (st w0).
Proof. exact pipeline_to_claims. Qed.

(** the same with other accepted transactions (pause ... unpause, support / claim-start setters, see
    C04_noise_calls) interleaved anywhere between the calls of the two steps: the state reached is the
    noise-free one up to the support address and the claim start, and satisfies [ClaimInv] *)
Theorem C01_pipeline_noisy : forall (H : list N -> list N) l w0 wf ef bf w1' ws es bs w2' sd rest,
  PreSel w0 l -> paused (st w0) = false -> open_flags w0 ->
  noisy filter_tickets w0 wf -> filter_tickets ef bf wf = Ok (w1', 0) ->
  seeds w1' = sd :: rest ->
  noisy (select_winners H) w1' ws -> select_winners H es bs ws = Ok (w2', 0) ->
  exists su cs w2,
    w2' = Uw su cs w2 /\ ClaimInv w2' (map fst l) /\
    let A := map fst l in
    let total := sumN (map (confirmed (st w0)) A) in
    let k := N.min (nr_winning (st w0)) total in
    let wins := fst (fy (N.to_nat k) (range_ids 1 total) (rng_words H (N.to_nat k) {| r_seed := sd; r_index := 0 |})) in
    Layout (range (st w2)) (confirmed (st w2)) 0 A /\ last_ticket_id (st w2) = total /\
    nr_winning (st w2) = k /\ (forall t, status (st w2) t = true <-> In t wins) /\ NoDup wins /\
    claimable_payment (st w2) = price (st w0) * k.
Proof. exact pipeline_noisy. Qed.

Theorem C01_pipeline_gt_noisy : forall (H : list N -> list N) v2 l w0 wf ef bf w1' ws es bs w2' sd rest wd ed bd w3',
  PreSel w0 l -> NoDup (gt_users (st w0)) -> paused (st w0) = false -> fl_additional (st w0) = false ->
  noisy filter_tickets w0 wf -> filter_tickets ef bf wf = Ok (w1', 0) ->
  seeds w1' = sd :: rest ->
  noisy (select_winners H) w1' ws -> select_winners H es bs ws = Ok (w2', 0) ->
  noisyT (distribute_guaranteed_tickets H v2) w2' wd -> distribute_guaranteed_tickets H v2 ed bd wd = Ok (w3', 0) ->
  exists su cs p w2 w3,
    w3' = Tw su cs p w3 /\ ClaimInv w3' (map fst l) /\
    dist_result v2 (st w2) (st w3) /\
    (forall u, In u (gt_users (st w2)) -> owed v2 (st w2) u <= own_winning (st w2) (st w3) u) /\
    (forall t, status (st w2) t = true -> status (st w3) t = true).
Proof. exact pipeline_gt_noisy. Qed.

Theorem C01_pipeline_drained : forall (H : list N -> list N) l w0 lf wf ef bf w1 ls ws es bs w2 sd rest w3,
  PreSel w0 l ->
  after_interrupted filter_tickets lf w0 = Some wf -> filter_tickets ef bf wf = Ok (w1, 0) ->
  seeds w1 = sd :: rest ->
  after_interrupted (select_winners H) ls w1 = Some ws -> select_winners H es bs ws = Ok (w2, 0) ->
  pay_steps w2 w3 ->
  (forall a, In a (map fst l) -> confirmed (st w3) a = 0) -> claimable_payment (st w3) = 0 ->
  bal w3 sc_addr (pay_token (st w3)) 0 = 0.
Proof. exact pipeline_drained. Qed.

(** the guaranteed-ticket contracts (gt1 mig lgt: [v2 = false]; gt2: [v2 = true]): the same with the
    distribution step as third stage, interrupted arbitrarily too: claim-period invariant, final
    count = reported winners = min(base + reserved, total) with proceeds to match (C03, C12), every
    listed holder honoured with tickets of its own range (C11) *)
Theorem C01_pipeline_gt : forall (H : list N -> list N) v2 l w0 lf wf ef bf w1 ls ws es bs w2 sd rest ld wd ed bd w3,
  PreSel w0 l -> NoDup (gt_users (st w0)) ->
  after_interrupted filter_tickets lf w0 = Some wf -> filter_tickets ef bf wf = Ok (w1, 0) ->
  seeds w1 = sd :: rest ->
  after_interrupted (select_winners H) ls w1 = Some ws -> select_winners H es bs ws = Ok (w2, 0) ->
  after_interrupted (distribute_guaranteed_tickets H v2) ld w2 = Some wd ->
  distribute_guaranteed_tickets H v2 ed bd wd = Ok (w3, 0) ->
  ClaimInv w3 (map fst l) /\
  dist_result v2 (st w2) (st w3) /\
  (forall u, In u (gt_users (st w2)) -> owed v2 (st w2) u <= own_winning (st w2) (st w3) u) /\
  (forall t, status (st w2) t = true -> status (st w3) t = true).
Proof. exact pipeline_gt. Qed.

(** ** from deployment ([plain v]: launchpad and launchpad-locked-tokens): [PreSel] holds in every
    state reached from a deployment with an ESDT launchpad token by accepted allocation (positive
    sizes), deposit, confirmation, blacklisting, pause / unpause, tokens-per-ticket, timeline and
    support transactions ([setup_call]; each a whole [exec] transaction, the VM crediting the call
    value first) - so the pipeline theorem needs no hypothesis about the state at all *)
Theorem C01_setup_reach : forall (H : list N -> list N) v w, plain v -> setup_reach H v w -> exists l, PreSel w l.
Proof. exact setup_reach_PreSel. Qed.

(** the same with a prefix - before anybody has confirmed - in which the owner may also change the
    ticket price and its token ([setup_callA]); while nobody has confirmed the contract holds nothing
    but the deposited launchpad tokens, so the new price finds the till empty.  (Once a confirmation
    was accepted the stage is Confirm for good - C06 - and the setter is rejected - C17.) *)
Theorem C01_setup_reach_price : forall (H : list N -> list N) w, setup_reach2 H w -> exists l, PreSel w l.
Proof. exact setup_reach2_PreSel. Qed.

Theorem C01_from_deployment : forall (H : list N -> list N) v w0 lf wf ef bf w1 ls ws es bs w2 sd rest,
  plain v -> setup_reach H v w0 ->
  after_interrupted filter_tickets lf w0 = Some wf -> filter_tickets ef bf wf = Ok (w1, 0) ->
  seeds w1 = sd :: rest ->
  after_interrupted (select_winners H) ls w1 = Some ws -> select_winners H es bs ws = Ok (w2, 0) ->
  exists l : list (N * N),
    let A := map fst l in
    let total := sumN (map (confirmed (st w0)) A) in
    let k := N.min (nr_winning (st w0)) total in
    let wins := fst (fy (N.to_nat k) (range_ids 1 total) (rng_words H (N.to_nat k) {| r_seed := sd; r_index := 0 |})) in
    ClaimInv w2 A /\
    Layout (range (st w2)) (confirmed (st w2)) 0 A /\ last_ticket_id (st w2) = total /\
    nr_winning (st w2) = k /\ (forall t, status (st w2) t = true <-> In t wins) /\ NoDup wins /\
    claimable_payment (st w2) = price (st w0) * k /\ confirmed (st w2) = confirmed (st w0).
Proof. exact deployed_pipeline. Qed.

(** the guaranteed-ticket contracts gt1, mig, lgt (v1 allocation) and gt2 (v2 allocation): from a
    deployment with an ESDT launchpad token through allocation with guarantees (v1: positive sizes),
    deposit, confirmation, pause / unpause, tokens-per-ticket, timeline and support transactions,
    blacklisting (with refunds and release of the guarantees), gt2 refunds and un-blacklisting
    (re-reserving the guarantees) in any order, then the three selection stages, each interrupted
    arbitrarily *)
Theorem C01_from_deployment_gt : forall (H : list N -> list N) v v2 w0 lf wf ef bf w1 ls ws es bs w2 sd rest ld wd ed bd w3,
  guar v -> setup_reach_gt H v w0 ->
  after_interrupted filter_tickets lf w0 = Some wf -> filter_tickets ef bf wf = Ok (w1, 0) ->
  seeds w1 = sd :: rest ->
  after_interrupted (select_winners H) ls w1 = Some ws -> select_winners H es bs ws = Ok (w2, 0) ->
  after_interrupted (distribute_guaranteed_tickets H v2) ld w2 = Some wd ->
  distribute_guaranteed_tickets H v2 ed bd wd = Ok (w3, 0) ->
  exists l : list (N * N),
    ClaimInv w3 (map fst l) /\
    dist_result v2 (st w2) (st w3) /\
    (forall u, In u (gt_users (st w2)) -> owed v2 (st w2) u <= own_winning (st w2) (st w3) u) /\
    (forall t, status (st w2) t = true -> status (st w3) t = true).
Proof. exact deployed_pipeline_gt. Qed.

Example C01_setup_gt_nonvacuous : setup_reach_gt sha256 Gt2 gt2_confirmed.
Proof. exact gt2_confirmed_reachable. Qed.

(** ... and so is a history in which a guarantee holder is blacklisted and restored and another
    participant refunded *)
Example C01_setup_gt_blacklist_nonvacuous :
  setup_reach_gt sha256 Gt2 gt2_bl_history /\
  (gt_users (st gt2_bl_history), nr_winning (st gt2_bl_history), total_guaranteed (st gt2_bl_history),
   blacklisted (st gt2_bl_history) 3, blacklisted (st gt2_bl_history) 4) = ([2; 3], 1, 2, false, true).
Proof. exact gt2_bl_history_reachable. Qed.

(** the concrete history of [Examples] (deployment, allocation of 3 + 2, deposit, two confirmations,
    each an [exec] transaction) is such a set-up history *)
Example C01_setup_nonvacuous : setup_reach sha256 Base base_confirmed.
Proof. exact base_confirmed_reachable. Qed.

(** the two NFT contracts: third stage [selectNftWinners] (nft) resp. [secondarySelectionStep] (ngt);
    [nft_disjoint]: no address is both NFT entrant and NFT winner (both lists are empty until the
    third stage starts).  The ticket ledger is untouched by the NFT draw; the NFT-fee ledger is C14. *)
Theorem C01_pipeline_nft : forall (H : list N -> list N) l w0 lf wf ef bf w1 ls ws es bs w2 sd rest ln wn en bn w3,
  PreSel w0 l -> nft_disjoint w0 ->
  after_interrupted filter_tickets lf w0 = Some wf -> filter_tickets ef bf wf = Ok (w1, 0) ->
  seeds w1 = sd :: rest ->
  after_interrupted (select_winners H) ls w1 = Some ws -> select_winners H es bs ws = Ok (w2, 0) ->
  after_interrupted (select_nft_winners_endpoint H) ln w2 = Some wn ->
  select_nft_winners_endpoint H en bn wn = Ok (w3, 0) ->
  ClaimInv w3 (map fst l) /\ status (st w3) = status (st w2) /\ nr_winning (st w3) = nr_winning (st w2).
Proof. exact pipeline_nft. Qed.

Theorem C01_pipeline_ngt : forall (H : list N -> list N) l w0 lf wf ef bf w1 ls ws es bs w2 sd rest ld wd ed bd w3,
  PreSel w0 l -> NoDup (gt_users (st w0)) -> nft_disjoint w0 ->
  after_interrupted filter_tickets lf w0 = Some wf -> filter_tickets ef bf wf = Ok (w1, 0) ->
  seeds w1 = sd :: rest ->
  after_interrupted (select_winners H) ls w1 = Some ws -> select_winners H es bs ws = Ok (w2, 0) ->
  after_interrupted (secondary_selection_step H) ld w2 = Some wd ->
  secondary_selection_step H ed bd wd = Ok (w3, 0) ->
  ClaimInv w3 (map fst l) /\
  dist_result false (st w2) (st w3) /\
  (forall u, In u (gt_users (st w2)) -> owed false (st w2) u <= own_winning (st w2) (st w3) u) /\
  (forall t, status (st w2) t = true -> status (st w3) t = true).
Proof. exact pipeline_ngt. Qed.

(** [PreSel] is satisfied by a state reached from deployment through real transactions (allocation of
    3 + 2 tickets, deposit, two confirmations of 2) *)
Example C01_pipeline_nonvacuous : PreSel base_confirmed [(2, 3); (3, 2)].
Proof. exact base_confirmed_PreSel. Qed.

(** the decidable part of [ClaimInv] holds in a concrete state after the base selection *)
Example C01_claim_nonvacuous :
  let s := st base_selected in
  bal base_selected sc_addr (pay_token s) 0 = price s * sumN (map (due s) [2; 3]) + claimable_payment s /\
  nr_winning s = sumN (map (winning_of s) [2; 3]) /\ nr_winning s = 2 /\
  map (range s) [2; 3] = [Some (1, 2); Some (3, 4)] /\ claimable_payment s = 2000.
Proof. vm_compute. repeat split. Qed.

(** Non-vacuity: a concrete reachable state satisfies the invariant; after all claims of a concrete
    lifecycle the contract holds nothing of the payment token. *)
Example C01_nonvacuous :
  bal base_confirmed 0 0 0 = 1000 * paysum (st base_confirmed) [2; 3] /\
  let wend := run_sha Base base_selected
                [ (mkenv 2 31 0 [], 5%nat, [], CClaim); (mkenv 1 31 0 [], 5%nat, [], CClaimPayment);
                  (mkenv 3 32 0 [], 5%nat, [], CClaim) ] in
  bal wend 0 0 0 = 0 /\ bal wend 0 1 0 = 0.
Proof. vm_compute. repeat split. Qed.

(** launchpad-with-nft from its deployment (fee asset different from the payment token): allocation,
    deposit, ticket and fee confirmations, blacklisting (both refunds), pause and configuration
    transactions in any order, then the three stages *)
Theorem C01_from_deployment_nft : forall (H : list N -> list N) w0 lf wf ef bf w1 ls ws es bs w2 sd rest ln wn en bn w3,
  setup_reach_nft H w0 ->
  after_interrupted filter_tickets lf w0 = Some wf -> filter_tickets ef bf wf = Ok (w1, 0) ->
  seeds w1 = sd :: rest ->
  after_interrupted (select_winners H) ls w1 = Some ws -> select_winners H es bs ws = Ok (w2, 0) ->
  after_interrupted (select_nft_winners_endpoint H) ln w2 = Some wn ->
  select_nft_winners_endpoint H en bn wn = Ok (w3, 0) ->
  exists l : list (N * N),
    ClaimInv w3 (map fst l) /\ status (st w3) = status (st w2) /\ nr_winning (st w3) = nr_winning (st w2).
Proof. exact deployed_pipeline_nft. Qed.

Example C01_setup_nft_nonvacuous : setup_reach_nft sha256 nft_confirmed.
Proof. exact (proj1 nft_confirmed_reachable). Qed.

(** nft-and-guaranteed-tickets from its deployment: v1 allocation with guarantees, deposit, ticket and
    fee confirmations, blacklisting (ticket refunds, release of guarantees, fee refunds), pause and
    configuration transactions in any order, then the three stages - with this, all eight contracts
    are covered from deployment *)
Theorem C01_from_deployment_ngt : forall (H : list N -> list N) w0 lf wf ef bf w1 ls ws es bs w2 sd rest ld wd ed bd w3,
  setup_reach_ngt H w0 ->
  after_interrupted filter_tickets lf w0 = Some wf -> filter_tickets ef bf wf = Ok (w1, 0) ->
  seeds w1 = sd :: rest ->
  after_interrupted (select_winners H) ls w1 = Some ws -> select_winners H es bs ws = Ok (w2, 0) ->
  after_interrupted (secondary_selection_step H) ld w2 = Some wd ->
  secondary_selection_step H ed bd wd = Ok (w3, 0) ->
  exists l : list (N * N),
    ClaimInv w3 (map fst l) /\
    dist_result false (st w2) (st w3) /\
    (forall u, In u (gt_users (st w2)) -> owed false (st w2) u <= own_winning (st w2) (st w3) u) /\
    (forall t, status (st w2) t = true -> status (st w3) t = true).
Proof. exact deployed_pipeline_ngt. Qed.

Example C01_setup_ngt_nonvacuous : setup_reach_ngt sha256 ngt_confirmed.
Proof. exact (proj1 ngt_confirmed_reachable). Qed.

Print Assumptions C01_confirm_keeps_solvency.
Print Assumptions C01_blacklist_keeps_solvency.
Print Assumptions C01_frame.
Print Assumptions C01_owner_withdrawal.
Print Assumptions C01_proceeds_of_distribution.
Print Assumptions C01_participant_refund.
Print Assumptions C01_claim_start.
Print Assumptions C01_claim_start_from_layout.
Print Assumptions C01_settle.
Print Assumptions C01_owner_leg.
Print Assumptions C01_owner.
Print Assumptions C01_owner_gt.
Print Assumptions C01_any_order.
Print Assumptions C01_drained.
Print Assumptions C01_pipeline.
Print Assumptions C01_pipeline_noisy.
Print Assumptions C01_pipeline_gt_noisy.
Print Assumptions C01_pipeline_drained.
Print Assumptions C01_pipeline_gt.
Print Assumptions C01_pipeline_nft.
Print Assumptions C01_pipeline_ngt.
Print Assumptions C01_setup_reach.
Print Assumptions C01_setup_reach_price.
Print Assumptions C01_from_deployment.
Print Assumptions C01_setup_nonvacuous.
Print Assumptions C01_from_deployment_gt.
Print Assumptions C01_setup_gt_nonvacuous.
Print Assumptions C01_setup_gt_blacklist_nonvacuous.
Print Assumptions C01_from_deployment_nft.
Print Assumptions C01_setup_nft_nonvacuous.
Print Assumptions C01_from_deployment_ngt.
Print Assumptions C01_setup_ngt_nonvacuous.
Print Assumptions C01_pipeline_nonvacuous.
Print Assumptions C01_claim_nonvacuous.
Print Assumptions C01_nonvacuous.
