(** * C14 - NFT draw picks min(available, payers) distinct payers; fees reconcile. *)
From Coq Require Import Permutation.
From LP Require Import Proofs.Tactics Proofs.LedgerBase Proofs.Gates Proofs.Frames Proofs.Confirm Proofs.Nft Proofs.Examples Proofs.NftLedger Proofs.Setup Proofs.SetupNft Proofs.SetupNgt Proofs.Resume Proofs.NftPipeline.
Open Scope N_scope.

(** paying the fee: only in the confirmation window, only after the SFT set-up, only with confirmed
    tickets, only once, only with exactly the configured asset (token, nonce and amount) *)
Theorem C14_pay : forall e w w',
  confirm_nft e w = Ok w' ->
  get_launch_stage e (st w) = Confirm /\ sft_ready (st w) = true /\ 0 < confirmed (st w) (caller e) /\
  mem (caller e) (nft_payers (st w)) = false /\
  egld_or_single_esdt (pay e) = Ok (nft_tok (st w), nft_nonce (st w), nft_amt (st w)) /\
  st w' = st w <| nft_payers := nft_payers (st w) ++ [caller e] |> /\ bal w' = bal w /\ evs w' = evs w.
Proof. exact confirm_nft_spec. Qed.

(** the completed draw (any hash, seed, budget): the winners are distinct payers, winners and
    remaining payers together are exactly the payers, and their number is min(available, payers) *)
Theorem C14_draw : forall (H : list N -> list N) b w r w' r' b',
  let p0 := nft_payers (st w) in
  NoDup p0 -> nft_winners (st w) = [] ->
  select_nft_winners H b w r = Ok (w', r', true, b') ->
  NoDup (nft_winners (st w')) /\ (forall a, In a (nft_winners (st w')) -> In a p0) /\
  Permutation (nft_payers (st w') ++ nft_winners (st w')) p0 /\
  N.of_nat (length (nft_winners (st w'))) = N.min (total_nfts (st w)) (N.of_nat (length p0)) /\
  bal w' = bal w /\ evs w' = evs w /\ tf (st w') = tf (st w) /\ status (st w') = status (st w) /\
  nr_winning (st w') = nr_winning (st w) /\ claimable_payment (st w') = claimable_payment (st w).
Proof. exact select_nft_winners_spec. Qed.

(** removal from the payer / winner sets keeps them duplicate-free and removes exactly one element *)
Theorem C14_swap_remove : forall x l, NoDup l -> In x l ->
  NoDup (swap_remove x l) /\ ~ In x (swap_remove x l) /\
  (forall y, In y (swap_remove x l) <-> In y l /\ y <> x) /\
  Datatypes.S (length (swap_remove x l)) = length l.
Proof. exact swap_remove_facts. Qed.

(** the claim: a drawn participant gets SFT 1 and no refund, another payer SFT 2 and the fee back,
    everybody else SFT 3; the claimant leaves the respective set (so it happens once) *)
Theorem C14_claim : forall e w w',
  claim_nft e w = Ok w' ->
  let s := st w in let a := caller e in
  let kind := if mem a (nft_winners s) then 1 else if mem a (nft_payers s) then 2 else 3 in
  sft_ready s = true /\
  nft_winners (st w') = (if mem a (nft_winners s) then swap_remove a (nft_winners s) else nft_winners s) /\
  nft_payers (st w') = (if mem a (nft_winners s) then nft_payers s
                        else if mem a (nft_payers s) then swap_remove a (nft_payers s) else nft_payers s) /\
  bal w' = (let b1 := upd_bal (bal w) a sft_token kind (bal w a sft_token kind + 1) in
            if kind =? 2 then bal_after b1 sc_addr a (nft_tok s) (nft_nonce s) (nft_amt s) else b1).
Proof. exact claim_nft_spec. Qed.

(** blacklisting a payer returns the fee and removes the payer from the draw *)
Theorem C14_blacklisted_payer : forall w u w',
  refund_nft_loop w [u] = Ok w' ->
  (mem u (nft_payers (st w)) = false /\ w' = w) \/
  (mem u (nft_payers (st w)) = true /\
   nft_payers (st w') = swap_remove u (nft_payers (st w)) /\
   bal w' = bal_after (bal w) sc_addr u (nft_tok (st w)) (nft_nonce (st w)) (nft_amt (st w))).
Proof. exact refund_nft_one. Qed.

(** the owner's NFT proceeds are what the completed draw recorded (fee x drawn), paid once *)
Theorem C14_owner_proceeds : forall e w w',
  claim_nft_payment e w = Ok w' ->
  get_launch_stage e (st w) = Claim /\ claimable_nft (st w') = 0 /\
  bal w' = (if 0 <? claimable_nft (st w)
            then bal_after (bal w) sc_addr (caller e) (nft_tok (st w)) (nft_nonce (st w)) (claimable_nft (st w))
            else bal w).
Proof. exact claim_nft_payment_spec. Qed.

(** ** the fee ledger ([FeeInv]: fee asset held = fee x payers not yet settled + proceeds not yet
    withdrawn; the fee asset is not the SFT collection) *)
(** the confirmation window: a fee payment (whole transaction, the VM crediting the call value)
    adds exactly one fee and one entrant; blacklisting returns one fee per entrant removed *)
Theorem C14_fee_confirm : forall (H : list N -> list N) v e b sd w w' r,
  pay_wf (pay e) -> caller e <> sc_addr -> FeeInv w ->
  exec H v e b sd w CConfirmNft = Ok (w', r) ->
  FeeInv w' /\ nft_payers (st w') = nft_payers (st w) ++ [caller e] /\ claimable_nft (st w') = claimable_nft (st w).
Proof. exact FeeInv_confirm_nft. Qed.

Theorem C14_fee_refund : forall l w w',
  FeeInv w -> ~ In sc_addr l -> refund_nft_loop w l = Ok w' ->
  FeeInv w' /\ claimable_nft (st w') = claimable_nft (st w).
Proof. exact FeeInv_refund. Qed.

Theorem C14_fee_draw : forall (H : list N -> list N) b w r w' r' b',
  FeeInv w -> nft_winners (st w) = [] -> claimable_nft (st w) = 0 ->
  select_nft_winners H b w r = Ok (w', r', true, b') ->
  FeeInv (set_claimable_nft w') /\
  claimable_nft (st (set_claimable_nft w')) =
    nft_amt (st w) * N.min (total_nfts (st w)) (N.of_nat (length (nft_payers (st w)))).
Proof. exact FeeInv_draw. Qed.

(** a claim cannot fail for lack of the fee asset; a loser gets the fee back, once *)
Theorem C14_fee_claim : forall e w,
  FeeInv w -> sft_ready (st w) = true -> caller e <> sc_addr ->
  exists w', claim_nft e w = Ok w' /\ FeeInv w' /\ claimable_nft (st w') = claimable_nft (st w) /\
    let a := caller e in
    nft_payers (st w') = (if mem a (nft_winners (st w)) then nft_payers (st w)
                          else if mem a (nft_payers (st w)) then swap_remove a (nft_payers (st w)) else nft_payers (st w)).
Proof. exact FeeInv_claim. Qed.

Theorem C14_fee_owner : forall e w,
  FeeInv w -> get_launch_stage e (st w) = Claim -> caller e <> sc_addr ->
  exists w', claim_nft_payment e w = Ok w' /\ FeeInv w' /\ claimable_nft (st w') = 0 /\
    nft_payers (st w') = nft_payers (st w) /\
    bal w' (caller e) (nft_tok (st w)) (nft_nonce (st w)) =
    bal w (caller e) (nft_tok (st w)) (nft_nonce (st w)) + claimable_nft (st w).
Proof. exact FeeInv_owner. Qed.

Theorem C14_fee_drained : forall w,
  FeeInv w -> nft_payers (st w) = [] -> claimable_nft (st w) = 0 -> fee_held w = 0.
Proof. exact FeeInv_drained. Qed.

(** the fee ledger along every set-up history of launchpad-with-nft from its deployment (fee asset
    different from the payment token): allocation, deposit, ticket confirmations, fee payments,
    blacklisting with ticket and fee refunds, pause, configuration transactions in any order *)
Theorem C14_fee_from_deployment : forall (H : list N -> list N) w, setup_reach_nft H w ->
  FeeInv w /\ nft_winners (st w) = [] /\ claimable_nft (st w) = 0.
Proof.
  intros H w Hr. destruct (setup_reach_nft_PreN H w Hr) as (l & _ & Hi).
  exact (conj (ni_fee _ Hi) (conj (ni_win _ Hi) (ni_cn _ Hi))).
Qed.

(** the same for the combined contract (nft-and-guaranteed-tickets): v1 allocation with guarantees,
    blacklisting with ticket refunds, release of guarantees and fee refunds *)
Theorem C14_fee_from_deployment_ngt : forall (H : list N -> list N) w, setup_reach_ngt H w ->
  FeeInv w /\ nft_winners (st w) = [] /\ claimable_nft (st w) = 0.
Proof.
  intros H w Hr. destruct (setup_reach_ngt_inv H w Hr) as (l & _ & Hi).
  exact (conj (ni_fee _ Hi) (conj (ni_win _ Hi) (ni_cn _ Hi))).
Qed.

(** from deployment to the claim period: after the three stages - the third interrupted arbitrarily
    often and resumed by anybody - the fee ledger holds and the owner's proceeds are
    fee x min(NFTs, entrants); [C14_fee_claim], [C14_fee_owner], [C14_fee_drained] take over from there *)
Theorem C14_fee_through_selection_nft : forall (H : list N -> list N) w0 lf wf ef bf w1 ls ws es bs w2 sd rest ln wn en bn w3,
  setup_reach_nft H w0 ->
  after_interrupted filter_tickets lf w0 = Some wf -> filter_tickets ef bf wf = Ok (w1, 0) ->
  seeds w1 = sd :: rest ->
  after_interrupted (select_winners H) ls w1 = Some ws -> select_winners H es bs ws = Ok (w2, 0) ->
  after_interrupted (select_nft_winners_endpoint H) ln w2 = Some wn ->
  select_nft_winners_endpoint H en bn wn = Ok (w3, 0) ->
  FeeInv w3 /\
  claimable_nft (st w3) = nft_amt (st w0) * N.min (total_nfts (st w0)) (N.of_nat (length (nft_payers (st w0)))).
Proof. exact deployed_nft_fee. Qed.

Theorem C14_fee_through_selection_ngt : forall (H : list N -> list N) w0 lf wf ef bf w1 ls ws es bs w2 sd rest ld wd ed bd w3,
  setup_reach_ngt H w0 ->
  after_interrupted filter_tickets lf w0 = Some wf -> filter_tickets ef bf wf = Ok (w1, 0) ->
  seeds w1 = sd :: rest ->
  after_interrupted (select_winners H) ls w1 = Some ws -> select_winners H es bs ws = Ok (w2, 0) ->
  after_interrupted (secondary_selection_step H) ld w2 = Some wd ->
  secondary_selection_step H ed bd wd = Ok (w3, 0) ->
  FeeInv w3 /\
  claimable_nft (st w3) = nft_amt (st w0) * N.min (total_nfts (st w0)) (N.of_nat (length (nft_payers (st w0)))).
Proof. exact deployed_ngt_fee. Qed.

Example C14_setup_nonvacuous :
  setup_reach_nft sha256 nft_confirmed /\
  (nft_payers (st nft_confirmed), confirmed (st nft_confirmed) 2, confirmed (st nft_confirmed) 3,
   bal nft_confirmed sc_addr 2 0, bal nft_confirmed sc_addr 0 0) = ([2], 3, 0, 7, 3000).
Proof. exact nft_confirmed_reachable. Qed.

Example C14_nonvacuous :
  swap_remove 3 [2; 3; 4; 5] = [2; 5; 4] /\ swap_remove 5 [2; 3; 4; 5] = [2; 3; 4] /\ swap_remove 9 [2; 3] = [2; 3] /\
  claimable_nft (set_claimable_nft (world0 (state0 <| nft_amt := 50 |> <| nft_winners := [4; 7] |>))).(st) = 100.
Proof. vm_compute. repeat split. Qed.

Print Assumptions C14_pay.
Print Assumptions C14_draw.
Print Assumptions C14_swap_remove.
Print Assumptions C14_claim.
Print Assumptions C14_blacklisted_payer.
Print Assumptions C14_owner_proceeds.
Print Assumptions C14_fee_confirm.
Print Assumptions C14_fee_refund.
Print Assumptions C14_fee_draw.
Print Assumptions C14_fee_claim.
Print Assumptions C14_fee_owner.
Print Assumptions C14_fee_drained.
Print Assumptions C14_fee_from_deployment.
Print Assumptions C14_fee_from_deployment_ngt.
Print Assumptions C14_fee_through_selection_nft.
Print Assumptions C14_fee_through_selection_ngt.
Print Assumptions C14_setup_nonvacuous.
Print Assumptions C14_nonvacuous.
