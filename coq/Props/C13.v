(** * C13 - Vesting is path-independent, monotone, bounded and ends at exactly 100%. *)
From LP Require Import Proofs.Tactics Proofs.LedgerBase Proofs.Vesting Proofs.Examples.
From LP Require Import Proofs.Resume Proofs.Filter Proofs.Select Proofs.SetupGt Proofs.VestedCover Proofs.SetupVested.
Open Scope N_scope.

(** v2: a claim after the settlement leaves the winner with exactly
    floor(entitlement x unlocked percentage / 100%) received in total - whatever was claimed before
    (path independence) - and pays exactly the difference. *)
Theorem C13_v2_cumulative : forall e w w',
  claimed (st w) (caller e) = true ->
  0 < total_claimable (st w) (caller e) ->
  claim_vested true e w = Ok w' ->
  let total := total_claimable (st w) (caller e) in
  let target := vested_v2 (st w) total (round e) in
  claimed_balance (st w) (caller e) <= target /\
  claimed_balance (st w') (caller e) = target /\
  total_claimable (st w') (caller e) = total /\
  sched2 (st w') = sched2 (st w) /\
  bal w' = (if 0 <? target - claimed_balance (st w) (caller e)
            then bal_after (bal w) sc_addr (caller e) (lp_token (st w)) 0 (target - claimed_balance (st w) (caller e))
            else bal w).
Proof. exact claim_vested_v2_cumulative. Qed.

(** the vested amount is monotone in the round, bounded by the entitlement and equal to it once the
    last milestone has passed (for every schedule the contract accepts, and for the default) *)
Theorem C13_v2_monotone : forall s total lo r1 r2,
  sorted_from lo (schedule_v2 s) -> r1 <= r2 -> vested_v2 s total r1 <= vested_v2 s total r2.
Proof. exact vested_v2_mono. Qed.
Theorem C13_v2_bounded : forall s total r,
  sumN (map snd (schedule_v2 s)) = MAX_PERCENTAGE -> vested_v2 s total r <= total.
Proof. exact vested_v2_bounded. Qed.
Theorem C13_v2_ends_at_100 : forall s total lo r,
  sorted_from lo (schedule_v2 s) -> sumN (map snd (schedule_v2 s)) = MAX_PERCENTAGE ->
  Forall (fun x => fst x <= r) (schedule_v2 s) -> vested_v2 s total r = total.
Proof. exact vested_v2_full. Qed.

(** v2 acceptance: exactly the schedules of the property *)
Theorem C13_v2_accept_iff : forall e w l,
  Forall (fun x => fst x < u64_lim /\ snd x < u64_lim) l ->
  ((exists w', set_unlock_schedule_v2 e w l = Ok w') <->
   caller e = owner_addr /\ get_launch_stage e (st w) = AddTickets /\
   N.of_nat (length l) <= MAX_UNLOCK_MILESTONES_ENTRIES /\ valid_v2 (round e) l).
Proof. exact set_unlock_schedule_v2_iff. Qed.
Theorem C13_v2_valid_iff : forall cur l, schedule_valid_v2 cur l = true <-> valid_v2 cur l.
Proof. exact schedule_valid_v2_iff. Qed.

(** v1: what a claim pays, percentage bounds, acceptance *)
Theorem C13_v1_claimable : forall e s a amt sch,
  sched1 s = Some sch ->
  compute_claimable_v1 e s a = Ok amt ->
  total_claimable s a = 0 /\ amt = 0 \/
  0 < total_claimable s a /\ claimed_balance s a < total_claimable s a /\
  (let '(start, initial, _, _, _) := sch in
   round e < start /\ amt = 0 \/
   start <= round e /\ initial = MAX_PERCENTAGE /\ amt = total_claimable s a \/
   start <= round e /\ initial <> MAX_PERCENTAGE /\
   claimed_balance s a + amt = vested_v1 sch (total_claimable s a) (round e)).
Proof. exact compute_claimable_v1_spec. Qed.
Theorem C13_v1_pct_bounded : forall sch r, sched1_ok sch -> pct_v1 sch r <= MAX_PERCENTAGE.
Proof. exact pct_v1_le. Qed.
Theorem C13_v1_pct_monotone : forall sch r1 r2, r1 <= r2 -> pct_v1 sch r1 <= pct_v1 sch r2.
Proof. exact pct_v1_mono. Qed.
Theorem C13_v1_bounded : forall sch total r, sched1_ok sch -> vested_v1 sch total r <= total.
Proof. exact vested_v1_bounded. Qed.
Theorem C13_v1_accept : forall e w a b c d p w',
  set_unlock_schedule_v1 e w a b c d p = Ok w' ->
  caller e = owner_addr /\
  (round e < conf_start (st w) \/ sched1 (st w) = None) /\
  round e <= a /\ sched1_ok (a, b, c, d, p) /\
  st w' = st w <| sched1 := Some (a, b, c, d, p) |> /\ bal w' = bal w.
Proof. exact set_unlock_schedule_v1_ok. Qed.

(** Non-vacuity: a three-milestone schedule is valid, 100 tokens vest 33 / 66 / 100. *)
(** ** from deployment (guaranteed-tickets-v2): after any set-up history, the three stages interrupted
    arbitrarily and any order of vesting claims and owner withdrawals, nobody has received more than
    the entitlement, the stored schedule adds up to 100 %, and the next claim of a settled winner
    brings the cumulative receipts to exactly floor(entitlement x unlocked % / 100 %) - monotone and
    bounded by the entitlement - whatever the earlier claims were *)
Theorem C13_from_deployment : forall (H : list N -> list N) w0 lf wf ef bf w1 ls ws es bs w2 sd rest ld wd ed bd w3 w4,
  setup_reach_gt H Gt2 w0 ->
  deposited (st w0) = true -> 0 < price (st w0) ->
  after_interrupted filter_tickets lf w0 = Some wf -> filter_tickets ef bf wf = Ok (w1, 0) ->
  seeds w1 = sd :: rest ->
  after_interrupted (select_winners H) ls w1 = Some ws -> select_winners H es bs ws = Ok (w2, 0) ->
  after_interrupted (distribute_guaranteed_tickets H true) ld w2 = Some wd ->
  distribute_guaranteed_tickets H true ed bd wd = Ok (w3, 0) ->
  vsteps true w3 w4 ->
  (forall a, claimed_balance (st w4) a <= total_claimable (st w4) a) /\
  sumN (map snd (schedule_v2 (st w4))) = MAX_PERCENTAGE /\
  (forall e w5, claimed (st w4) (caller e) = true -> 0 < total_claimable (st w4) (caller e) ->
     claim_vested true e w4 = Ok w5 ->
     let total := total_claimable (st w4) (caller e) in
     claimed_balance (st w5) (caller e) = vested_v2 (st w4) total (round e) /\
     claimed_balance (st w4) (caller e) <= claimed_balance (st w5) (caller e) /\
     claimed_balance (st w5) (caller e) <= total /\ total_claimable (st w5) (caller e) = total).
Proof. exact deployed_vesting_v2. Qed.

Example C13_nonvacuous :
  schedule_valid_v2 5 [(10, 3333); (20, 3333); (20, 3334)] = true /\
  map (fun r => 100 * pct_v2 [(10, 3333); (20, 3333); (20, 3334)] r / MAX_PERCENTAGE) [9; 10; 19; 20; 1000]
  = [0; 33; 33; 100; 100].
Proof. vm_compute. split; reflexivity. Qed.

Print Assumptions C13_v2_cumulative.
Print Assumptions C13_v2_monotone.
Print Assumptions C13_v2_bounded.
Print Assumptions C13_v2_ends_at_100.
Print Assumptions C13_v2_accept_iff.
Print Assumptions C13_v2_valid_iff.
Print Assumptions C13_v1_claimable.
Print Assumptions C13_v1_pct_bounded.
Print Assumptions C13_v1_pct_monotone.
Print Assumptions C13_v1_bounded.
Print Assumptions C13_v1_accept.
Print Assumptions C13_from_deployment.
Print Assumptions C13_nonvacuous.
