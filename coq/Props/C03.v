(** * C03 - Exactly min(configured winners, confirmed tickets) distinct tickets win.
    Proved here: the base lottery (all variants), the filter cap, and the additional step of the
    guaranteed-ticket variants: when it completes - in one call or after any interruption schedule -
    the number of marked tickets of 1..n equals the reported winners, which is
    min(base winners + reserved tickets of the listed holders, n); proceeds grow by price x the
    additional winners.  (Holders' guarantees: C11.  base winners + reserved = configured winners:
    C12.) *)
From Coq Require Import Permutation.
From LP Require Import Proofs.Tactics Proofs.Loop Proofs.Resume Proofs.FisherYates Proofs.Shuffle Proofs.Rng Proofs.Select
  Proofs.Filter Proofs.Resume3 Proofs.GuaranteedLoop Proofs.Leftover Proofs.Examples.
From LP Require Import Proofs.Setup Proofs.SetupGt Proofs.SetupVested Proofs.SetupCover.
Open Scope N_scope.

(** After the completed base selection exactly [nr_winning] tickets are marked, they are distinct,
    all in 1..total, and the owner's proceeds are price x winners.  With the filter cap
    ([C03_filter_cap]) [nr_winning = min(winners before filtering, total)]. *)
Theorem C03_base : forall (H : list N -> list N) e b w w' sd rest,
  op (st w) = OpNone -> seeds w = sd :: rest ->
  fresh_shuffle (st w) ->
  nr_winning (st w) <= last_ticket_id (st w) ->
  select_winners H e b w = Ok (w', 0) ->
  let k := N.to_nat (nr_winning (st w)) in
  let n := last_ticket_id (st w) in
  let words := rng_words H k {| r_seed := sd; r_index := 0 |} in
  let wins := fst (fy k (range_ids 1 n) words) in
  (forall t, status (st w') t = true <-> In t wins) /\
  NoDup wins /\ length wins = k /\ (forall t, In t wins -> 1 <= t <= n) /\
  fl_selected (st w') = true /\ nr_winning (st w') = nr_winning (st w) /\
  last_ticket_id (st w') = n /\
  claimable_payment (st w') = price (st w) * nr_winning (st w) /\
  bal w' = bal w /\ op (st w') = OpNone /\ seeds w' = rest.
Proof. exact select_winners_completed. Qed.

(** the invariant behind it, for every prefix of the selection: winners so far ++ remaining array is
    a permutation of 1..n and exactly the winners are marked *)
Theorem C03_invariant : forall k s i n wins words,
  SInv n s i wins -> (N.of_nat k <= n + 1 - i) -> (k <= length words)%nat ->
  let (w2, r) := fy k (arr_of s i n) words in
  SInv n (sloop k s i n words) (i + N.of_nat k) (wins ++ w2) /\
  arr_of (sloop k s i n words) (i + N.of_nat k) n = r.
Proof. exact sloop_refines. Qed.

(** the cap applied when the filter completes *)
Theorem C03_filter_cap : forall e b w w' l,
  op (st w) = OpNone ->
  Chain (st w) (last_ticket_id (st w)) 1 l -> Owned (st w) 1 l -> NoDup (map fst l) ->
  Forall (fun x => confirmed (st w) (fst x) <= snd x /\ 0 < snd x) l ->
  filter_tickets e b w = Ok (w', 0) ->
  nr_winning (st w') = N.min (nr_winning (st w)) (sumN (confs (st w) l)) /\
  last_ticket_id (st w') = sumN (confs (st w) l).
Proof. exact filter_cap. Qed.

(** the state the base selection leaves satisfies the structural hypotheses of the additional step:
    the positions after the winners hold distinct ids of 1..n, the ids no longer there are winning,
    and marked tickets = reported winners *)
Theorem C03_base_shape : forall (H : list N -> list N) e b w w' sd rest,
  op (st w) = OpNone -> seeds w = sd :: rest ->
  fresh_shuffle (st w) ->
  nr_winning (st w) <= last_ticket_id (st w) ->
  select_winners H e b w = Ok (w', 0) ->
  let n := last_ticket_id (st w) in
  (exists wins, DInv n (st w') (nr_winning (st w) + 1) wins) /\
  count_winning (st w') (range_ids 1 n) = nr_winning (st w).
Proof. exact select_winners_completed_shape. Qed.

(** the additional step (gt1 mig lgt: [v2 = false]; gt2: [v2 = true]), completed after any
    interruption schedule, from a state [dist_ready] (no operation pending, duplicate-free holder
    list, ranges inside 1..n, the shape above, v2: confirmed <= allocation) *)
Theorem C03_final : forall (H : list N -> list N) v2 l w wk e b w',
  dist_ready v2 (st w) ->
  after_interrupted (distribute_guaranteed_tickets H v2) l w = Some wk ->
  distribute_guaranteed_tickets H v2 e b wk = Ok (w', 0) ->
  let n := last_ticket_id (st w) in
  count_winning (st w') (range_ids 1 n) = nr_winning (st w') /\
  nr_winning (st w') = N.min (nr_winning (st w) + total_reserved v2 (st w)) n /\
  claimable_payment (st w') = claimable_payment (st w) + price (st w) * (nr_winning (st w') - nr_winning (st w)) /\
  last_ticket_id (st w') = n.
Proof. exact distribute_counts_interrupted. Qed.

(** the combined step of ngt *)
Theorem C03_final_ngt : forall (H : list N -> list N) l w wk e b w',
  dist_ready false (st w) -> nft_disjoint w ->
  after_interrupted (secondary_selection_step H) l w = Some wk ->
  secondary_selection_step H e b wk = Ok (w', 0) ->
  let n := last_ticket_id (st w) in
  count_winning (st w') (range_ids 1 n) = nr_winning (st w') /\
  nr_winning (st w') = N.min (nr_winning (st w) + total_reserved false (st w)) n /\
  claimable_payment (st w') = claimable_payment (st w) + price (st w) * (nr_winning (st w') - nr_winning (st w)) /\
  last_ticket_id (st w') = n.
Proof. exact secondary_counts_interrupted. Qed.

(** every reserved ticket handed out in the leftover phase marks exactly one existing ticket that
    was not winning: one step of the loop *)
Theorem C03_leftover_step : forall (H : list N -> list N) v2 nrw last tot w o w' o' c,
  LInv v2 nrw last tot (w, o) ->
  leftover_body H v2 nrw last (w, o) = Ok (w', o', c) ->
  LInv v2 nrw last tot (w', o') /\ (c = false -> g_leftover o' = 0 /\ w' = w) /\
  bal w' = bal w /\ evs w' = evs w /\
  (exists f g, st w' = st w <| status := f |> <| pos2id := g |>) /\
  (forall t, status (st w) t = true -> status (st w') t = true).
Proof. exact leftover_body_LInv. Qed.

(** ** from deployment, whatever the set-up history and the interruption schedule *)

(** launchpad / launchpad-locked-tokens: the winners are exactly the Fisher-Yates winners of the draws
    of the seed, and there are min(configured at deployment, confirmed tickets) of them *)
Theorem C03_from_deployment : forall (H : list N -> list N) v w0 lf wf ef bf w1 ls ws es bs w2 sd rest,
  plain v -> setup_reach H v w0 ->
  after_interrupted filter_tickets lf w0 = Some wf -> filter_tickets ef bf wf = Ok (w1, 0) ->
  seeds w1 = sd :: rest ->
  after_interrupted (select_winners H) ls w1 = Some ws -> select_winners H es bs ws = Ok (w2, 0) ->
  exists e lp tpt0 ptok price0 nrw conf wsr claim x s (l : list (N * N)),
    deploy v e lp tpt0 ptok price0 nrw conf wsr claim x = Ok s /\
    let total := sumN (map (confirmed (st w0)) (map fst l)) in
    let k := N.min nrw total in
    let wins := fst (fy (N.to_nat k) (range_ids 1 total) (rng_words H (N.to_nat k) {| r_seed := sd; r_index := 0 |})) in
    nr_winning (st w2) = k /\ (forall t, status (st w2) t = true <-> In t wins) /\ NoDup wins.
Proof. exact deployed_plain_winners. Qed.

(** the guaranteed-ticket contracts: after the distribution step, reported = marked =
    min(configured at deployment, confirmed tickets) *)
Theorem C03_from_deployment_gt : forall (H : list N -> list N) v w0 lf wf ef bf w1 ls ws es bs w2 sd rest ld wd ed bd w3,
  guar v -> setup_reach_gt H v w0 ->
  after_interrupted filter_tickets lf w0 = Some wf -> filter_tickets ef bf wf = Ok (w1, 0) ->
  seeds w1 = sd :: rest ->
  after_interrupted (select_winners H) ls w1 = Some ws -> select_winners H es bs ws = Ok (w2, 0) ->
  after_interrupted (distribute_guaranteed_tickets H (vflag v)) ld w2 = Some wd ->
  distribute_guaranteed_tickets H (vflag v) ed bd wd = Ok (w3, 0) ->
  exists e lp tpt0 ptok price0 nrw conf wsr claim x s (l : list (N * N)),
    deploy v e lp tpt0 ptok price0 nrw conf wsr claim x = Ok s /\
    nr_winning (st w3) = N.min nrw (sumN (map (confirmed (st w0)) (map fst l))) /\
    count_winning (st w3) (range_ids 1 (sumN (map (confirmed (st w0)) (map fst l)))) = nr_winning (st w3).
Proof. exact deployed_final_winners. Qed.

Example C03_nonvacuous :
  nr_winning (st base_selected) = 2 /\
  length (filter (status (st base_selected)) (range_ids 1 4)) = 2%nat /\
  claimable_payment (st base_selected) = 2000.
Proof. vm_compute. repeat split. Qed.

(** Non-vacuity of [C03_final]: in the gt2 sale of [Examples] the decidable hypotheses hold after the
    base selection (1 base winner, 2 reserved tickets, 9 confirmed tickets) and the completed step
    (interrupted once) reports 3 = min(1 + 2, 9) winners, all marked. *)
Example C03_final_nonvacuous :
  let s0 := st gt2_selected in let s1 := st gt2_done in
  op s0 = OpNone /\ gt_users s0 = [2; 3] /\ last_ticket_id s0 = 9 /\
  count_winning s0 (range_ids 1 9) = nr_winning s0 /\ nr_winning s0 = 1 /\ total_reserved true s0 = 2 /\
  map (range s0) [2; 3; 4] = [Some (1, 3); Some (4, 5); Some (6, 9)] /\
  fl_additional (st gt2_half) = false /\
  count_winning s1 (range_ids 1 9) = 3 /\ nr_winning s1 = 3 /\
  claimable_payment s1 = claimable_payment s0 + price s0 * 2.
Proof. vm_compute. repeat split. Qed.

Print Assumptions C03_base.
Print Assumptions C03_invariant.
Print Assumptions C03_filter_cap.
Print Assumptions C03_base_shape.
Print Assumptions C03_final.
Print Assumptions C03_final_ngt.
Print Assumptions C03_leftover_step.
Print Assumptions C03_from_deployment.
Print Assumptions C03_from_deployment_gt.
Print Assumptions C03_final_nonvacuous.
Print Assumptions C03_nonvacuous.
