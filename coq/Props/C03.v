(** * C03 - Exactly min(configured winners, confirmed tickets) distinct tickets win.
    Proved here: the base lottery (all variants) and the filter cap.  The statement for the
    additional step of the guaranteed-ticket variants is in C11 / C12 (see DESIGN.md for what is
    proved there and what is covered by the correspondence check only). *)
From Coq Require Import Permutation.
From LP Require Import Proofs.Tactics Proofs.FisherYates Proofs.Shuffle Proofs.Rng Proofs.Select Proofs.Filter Proofs.Examples.
Open Scope N_scope.

(** After the completed base selection exactly [nr_winning] tickets are marked, they are distinct,
    all in 1..total, and the owner's proceeds are price x winners.  With the filter cap
    ([C03_filter_cap]) [nr_winning = min(winners before filtering, total)]. *)
Theorem C03_base : forall (H : list N -> list N) e b w w' sd rest,
  op (st w) = OpNone -> seeds w = sd :: rest ->
  fresh_shuffle (st w) ->
  nr_winning (st w) <= last_ticket_id (st w) ->
  select_winners H e b w = Ok (w', 0) ->
  let k := N.to_nat (nr_winning (st w)) in
  let n := last_ticket_id (st w) in
  let words := rng_words H k {| r_seed := sd; r_index := 0 |} in
  let wins := fst (fy k (range_ids 1 n) words) in
  (forall t, status (st w') t = true <-> In t wins) /\
  NoDup wins /\ length wins = k /\ (forall t, In t wins -> 1 <= t <= n) /\
  fl_selected (st w') = true /\ nr_winning (st w') = nr_winning (st w) /\
  last_ticket_id (st w') = n /\
  claimable_payment (st w') = price (st w) * nr_winning (st w) /\
  bal w' = bal w /\ op (st w') = OpNone /\ seeds w' = rest.
Proof. exact select_winners_completed. Qed.

(** the invariant behind it, for every prefix of the selection: winners so far ++ remaining array is
    a permutation of 1..n and exactly the winners are marked *)
Theorem C03_invariant : forall k s i n wins words,
  SInv n s i wins -> (N.of_nat k <= n + 1 - i) -> (k <= length words)%nat ->
  let (w2, r) := fy k (arr_of s i n) words in
  SInv n (sloop k s i n words) (i + N.of_nat k) (wins ++ w2) /\
  arr_of (sloop k s i n words) (i + N.of_nat k) n = r.
Proof. exact sloop_refines. Qed.

(** the cap applied when the filter completes *)
Theorem C03_filter_cap : forall e b w w' l,
  op (st w) = OpNone ->
  Chain (st w) (last_ticket_id (st w)) 1 l -> Owned (st w) 1 l -> NoDup (map fst l) ->
  Forall (fun x => confirmed (st w) (fst x) <= snd x /\ 0 < snd x) l ->
  filter_tickets e b w = Ok (w', 0) ->
  nr_winning (st w') = N.min (nr_winning (st w)) (sumN (confs (st w) l)) /\
  last_ticket_id (st w') = sumN (confs (st w) l).
Proof. exact filter_cap. Qed.

Example C03_nonvacuous :
  nr_winning (st base_selected) = 2 /\
  length (filter (status (st base_selected)) (range_ids 1 4)) = 2%nat /\
  claimable_payment (st base_selected) = 2000.
Proof. vm_compute. repeat split. Qed.

Print Assumptions C03_base.
Print Assumptions C03_invariant.
Print Assumptions C03_filter_cap.
Print Assumptions C03_nonvacuous.
