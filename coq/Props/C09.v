(** * C09 - Each participant settles exactly once, for exactly what the views reported. *)
From LP Require Import Proofs.Tactics Proofs.LedgerBase Proofs.Gates Proofs.Frames Proofs.Settle Proofs.Vesting Proofs.Examples.
Open Scope N_scope.

(** The settlement shared by all claim endpoints: the caller must own a range; winning = number of
    marked tickets of that range (= the winner view once selection is complete); the refund is
    price x (confirmed - winning), paid to the caller with one refund event; afterwards the caller
    has no range, no confirmation, is marked as claimed; nobody else's data changes. *)
Theorem C09_settlement : forall e w w' wins,
  settle_tickets e w = Ok (w', wins) ->
  let s := st w in let a := caller e in
  range s a <> None /\ wins = winning_of s a /\ wins <= confirmed s a /\
  range (st w') a = None /\ confirmed (st w') a = 0 /\ claimed (st w') a = true /\
  nr_winning (st w') = nr_winning s - wins /\ (0 < wins -> wins <= nr_winning s) /\
  (forall x, x <> a -> range (st w') x = range s x /\ confirmed (st w') x = confirmed s x /\
                       claimed (st w') x = claimed s x) /\
  tf (st w') = tf s /\ total_claimable (st w') = total_claimable s /\ claimed_balance (st w') = claimed_balance s /\
  bal w' = (if 0 <? confirmed s a - wins
            then bal_after (bal w) sc_addr a (pay_token s) 0 (price s * (confirmed s a - wins)) else bal w) /\
  evs w' = (if 0 <? confirmed s a - wins
            then [{| ev_name := EvRefund; ev_nums := event_hdr e ++ [confirmed s a - wins; pay_token s; 0; price s * (confirmed s a - wins)] |}]
            else []) ++ evs w.
Proof. exact settle_spec. Qed.

Theorem C09_winning_is_the_view : forall s a,
  fl_selected s = true -> winning_of s a = N.of_nat (length (get_winning_ticket_ids_for_address s a)).
Proof. exact winning_of_view. Qed.

(** non-vested variants: a second claim and a claim without surviving tickets are rejected *)
Theorem C09_second_claim_rejected : forall sf e w,
  claimed (st w) (caller e) = true -> exists k, claim_launchpad_tokens sf e w = Err k.
Proof. exact claim_twice_fails. Qed.
Theorem C09_foreign_claim_rejected : forall sf e w,
  range (st w) (caller e) = None -> exists k, claim_launchpad_tokens sf e w = Err k.
Proof. exact claim_without_range_fails. Qed.

(** vested variants: a repeated claim never settles again; it only pays what vesting releases *)
Theorem C09_vested_repeat : forall e w w',
  claimed (st w) (caller e) = true ->
  0 < total_claimable (st w) (caller e) ->
  claim_vested true e w = Ok w' ->
  let total := total_claimable (st w) (caller e) in
  let target := vested_v2 (st w) total (round e) in
  claimed_balance (st w) (caller e) <= target /\
  claimed_balance (st w') (caller e) = target /\
  total_claimable (st w') (caller e) = total /\
  sched2 (st w') = sched2 (st w) /\
  bal w' = (if 0 <? target - claimed_balance (st w) (caller e)
            then bal_after (bal w) sc_addr (caller e) (lp_token (st w)) 0 (target - claimed_balance (st w) (caller e))
            else bal w).
Proof. exact claim_vested_v2_cumulative. Qed.

(** first claims are gated by the claim stage and need a range *)
Theorem C09_vested_first_claim_gate : forall v2 e w w',
  claim_vested v2 e w = Ok w' ->
  (v2 = true -> paused (st w) = false) /\
  (claimed (st w) (caller e) = false -> get_launch_stage e (st w) = Claim /\ range (st w) (caller e) <> None).
Proof. exact gate_claim_vested. Qed.

Example C09_nonvacuous :
  let w1 := step_sha Base base_selected (mkenv 2 31 0 [], 5%nat, [], CClaim) in
  winning_of (st base_selected) 2 = 0 /\ winning_of (st base_selected) 3 = 2 /\
  bal w1 2 0 0 = bal base_selected 2 0 0 + 2000 /\ claimed (st w1) 2 = true /\
  exec_sha Base (mkenv 2 32 0 []) 5 [] w1 CClaim = Err FUser /\
  exec_sha Base (mkenv 14 32 0 []) 5 [] w1 CClaim = Err FUser.
Proof. vm_compute. repeat split. Qed.

Print Assumptions C09_settlement.
Print Assumptions C09_winning_is_the_view.
Print Assumptions C09_second_claim_rejected.
Print Assumptions C09_foreign_claim_rejected.
Print Assumptions C09_vested_repeat.
Print Assumptions C09_vested_first_claim_gate.
Print Assumptions C09_nonvacuous.
