(** * C04 - Interrupted operations resume to the same result; seed fixed by the first call. *)
From LP Require Import Proofs.Tactics Proofs.Loop Proofs.Resume Proofs.Resume2 Proofs.Resume3 Proofs.Resume4 Proofs.Confirm Proofs.Interleave Proofs.InterleaveGt Proofs.InterleaveNft Proofs.LifecycleNoisy Proofs.Examples.
Open Scope N_scope.

(** The loop law: a run interrupted with budget [b1] and resumed with [b2] equals one run with
    budget [b1 + 1 + b2], for every loop body. *)
Theorem C04_run_split : forall (S : Type) (body : S -> res (S * bool)) b1 b2 s s1,
  run_while b1 body s = Ok (s1, false, O) ->
  run_while (b1 + Datatypes.S b2) body s = run_while b2 body s1.
Proof. exact @run_split. Qed.

(** filterTickets: any number of interrupted calls (any callers, rounds, budgets) followed by a call
    [(e, b)] give exactly the world a single call [e] with the total budget gives. *)
Theorem C04_filter : forall l w wk e b,
  filter_op_ok (st w) -> after_interrupted filter_tickets l w = Some wk ->
  filter_tickets e b wk = filter_tickets e (total_budget l b) w.
Proof. exact filter_multi_resume. Qed.

(** selectWinners: the same, for every hash function; in particular the winners and the saved
    generator do not depend on who resumes, when, or with which block randomness. *)
Theorem C04_select : forall (H : list N -> list N) l w wk e b,
  after_interrupted (select_winners H) l w = Some wk ->
  select_winners H e b wk = select_winners H e (total_budget l b) w.
Proof. exact select_multi_resume. Qed.

(** distributeGuaranteedTickets (gt1 mig lgt: [v2 = false]; gt2: [v2 = true]): the same law, across
    both of its phases (per-user top-up, leftover redistribution) - an interruption in either phase,
    resumed by anybody at any block, continues exactly where the single call would be. *)
Theorem C04_distribute : forall (H : list N -> list N) v2 l w wk e b,
  after_interrupted (distribute_guaranteed_tickets H v2) l w = Some wk ->
  distribute_guaranteed_tickets H v2 e b wk = distribute_guaranteed_tickets H v2 e (total_budget l b) w.
Proof. exact distribute_multi_resume. Qed.

(** selectNftWinners (nft): the same law, from every state in which no address is listed both as
    an NFT entrant and as an NFT winner (kept by every step: [select_nft_resume]). *)
Theorem C04_select_nft : forall (H : list N -> list N) l w wk e b,
  NoDup (nft_payers (st w) ++ nft_winners (st w)) ->
  after_interrupted (select_nft_winners_endpoint H) l w = Some wk ->
  select_nft_winners_endpoint H e b wk = select_nft_winners_endpoint H e (total_budget l b) w.
Proof. exact select_nft_multi_resume. Qed.

(** secondarySelectionStep (ngt): guaranteed tickets, then - in the call in which they complete, or a
    later one - the NFT draw; interrupted in either sub-step, any number of times. *)
Theorem C04_secondary : forall (H : list N -> list N) l w wk e b,
  NoDup (nft_payers (st w) ++ nft_winners (st w)) ->
  after_interrupted (secondary_selection_step H) l w = Some wk ->
  secondary_selection_step H e b wk = secondary_selection_step H e (total_budget l b) w.
Proof. exact secondary_multi_resume. Qed.

(** other accepted transactions between the calls of a step: during the selection period the
    contracts accept, besides the step itself, only pause / unpause, setSupportAddress and
    setClaimStartRound (a start round still in the future); after the reset of the output fields every
    transaction begins with, what they leave is a [Tw] transform of the world ([C04_noise_calls]).  A
    history of interrupted calls with such transforms in between ([noisy]), completed by an accepted
    call, ends in the [Uw] transform (support address, claim start) of what the noise-free history
    with the same calls ends in: the step's outcome does not depend on the interleaved transactions. *)
Theorem C04_noise_calls : forall (H : list N -> list N) v e b sd w c w' r sd',
  noise_call c -> exec H v e b sd w c = Ok (w', r) ->
  exists su cs p, reset_outputs w' sd' = Tw su cs p (reset_outputs w sd').
Proof. exact noise_exec. Qed.

Theorem C04_filter_noise : forall wa wk e b wf x,
  noisy filter_tickets wa wk -> paused (st wa) = false -> open_flags wa -> filter_tickets e b wk = Ok (wf, x) ->
  exists l wq su cs wpure, after_interrupted filter_tickets l wa = Some wq /\
                           filter_tickets e b wq = Ok (wpure, x) /\ wf = Uw su cs wpure.
Proof. exact filter_noisy_complete. Qed.

Theorem C04_select_noise : forall (H : list N -> list N) wa wk e b wf x,
  noisy (select_winners H) wa wk -> paused (st wa) = false -> open_flags wa -> select_winners H e b wk = Ok (wf, x) ->
  exists l wq su cs wpure, after_interrupted (select_winners H) l wa = Some wq /\
                           select_winners H e b wq = Ok (wpure, x) /\ wf = Uw su cs wpure.
Proof. exact select_noisy_complete. Qed.

(** the distribution step: the same with the full transform (the v1 family does not look at the pause
    flag, so its calls may even happen while the contract is paused; gt2 is gated) *)
Theorem C04_distribute_noise : forall (H : list N -> list N) v2 wa wp su0 cs0 p0 wk e b wf x,
  noisyT (distribute_guaranteed_tickets H v2) wa wk -> wa = Tw su0 cs0 p0 wp ->
  (v2 = true -> paused (st wp) = false) -> open_flags wp ->
  distribute_guaranteed_tickets H v2 e b wk = Ok (wf, x) ->
  exists l wq su cs p wpure, after_interrupted (distribute_guaranteed_tickets H v2) l wp = Some wq /\
                             distribute_guaranteed_tickets H v2 e b wq = Ok (wpure, x) /\ wf = Tw su cs p wpure.
Proof. exact distribute_noisy_complete. Qed.

(** a resumed selectWinners neither reads nor consumes the fresh randomness of its own call *)
(** the third stage of the two NFT contracts (these endpoints are not gated by the pause flag) *)
Theorem C04_select_nft_noise : forall (H : list N -> list N) wa wp su0 cs0 p0 wk e b wf x,
  noisyT (select_nft_winners_endpoint H) wa wk -> wa = Tw su0 cs0 p0 wp -> open_flags wp ->
  select_nft_winners_endpoint H e b wk = Ok (wf, x) ->
  exists l wq su cs p wpure, after_interrupted (select_nft_winners_endpoint H) l wp = Some wq /\
                             select_nft_winners_endpoint H e b wq = Ok (wpure, x) /\ wf = Tw su cs p wpure.
Proof. exact select_nft_noisy_complete. Qed.

Theorem C04_secondary_noise : forall (H : list N -> list N) wa wp su0 cs0 p0 wk e b wf x,
  noisyT (secondary_selection_step H) wa wk -> wa = Tw su0 cs0 p0 wp -> open_flags wp ->
  secondary_selection_step H e b wk = Ok (wf, x) ->
  exists l wq su cs p wpure, after_interrupted (secondary_selection_step H) l wp = Some wq /\
                             secondary_selection_step H e b wq = Ok (wpure, x) /\ wf = Tw su cs p wpure.
Proof. exact secondary_noisy_complete. Qed.

Theorem C04_select_seed_fixed : forall (H : list N -> list N) e b w r p sd,
  op (st w) = OpSelect r p ->
  select_winners H e b (w <| seeds := sd |>) =
  match select_winners H e b w with
  | Ok (w', x) => Ok (w' <| seeds := sd |>, x)
  | Err k => Err k
  end.
Proof. exact select_resumed_ignores_seeds. Qed.

(** completion within a measure, for every loop *)
Theorem C04_completes : forall (S : Type) (body : S -> res (S * bool)) (P : S -> Prop) (m : S -> nat),
  (forall s, P s -> exists s' c, body s = Ok (s', c) /\ P s' /\ (c = true -> (m s' < m s)%nat)) ->
  forall b s, P s -> (m s <= b)%nat -> exists s1 b', run_while b body s = Ok (s1, true, b').
Proof. exact @run_completes. Qed.

(** Non-vacuity: in a concrete history the filter interrupted after every iteration ends in the same
    state as the single call. *)
Example C04_nonvacuous :
  let w1 := step_sha Base base_confirmed (mkenv 2 20 0 [], 0%nat, [], CFilter) in
  let w2 := step_sha Base w1 (mkenv 3 21 0 [], 0%nat, [], CFilter) in
  let w3 := step_sha Base w2 (mkenv 1 22 0 [], 5%nat, [], CFilter) in
  let wone := step_sha Base base_confirmed (mkenv 1 22 0 [], 50%nat, [], CFilter) in
  fl_filtered (st w1) = false /\ fl_filtered (st w3) = true /\
  last_ticket_id (st w3) = 4 /\ last_ticket_id (st wone) = 4 /\
  map (range (st w3)) [2; 3] = map (range (st wone)) [2; 3].
Proof. vm_compute. repeat split. Qed.

Print Assumptions C04_run_split.
Print Assumptions C04_filter.
Print Assumptions C04_select.
Print Assumptions C04_distribute.
Print Assumptions C04_select_nft.
Print Assumptions C04_secondary.
Print Assumptions C04_noise_calls.
Print Assumptions C04_filter_noise.
Print Assumptions C04_select_noise.
Print Assumptions C04_distribute_noise.
Print Assumptions C04_select_nft_noise.
Print Assumptions C04_secondary_noise.
Print Assumptions C04_select_seed_fixed.
Print Assumptions C04_completes.
Print Assumptions C04_nonvacuous.
